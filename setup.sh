#!/bin/bash
# MANIFEST.setup_cmd: build everything once (offline) so that later checks only relink.
set -eu
HERE="$(cd "$(dirname "$0")" && pwd)"
. "$HERE/env.sh"
mkdir -p "$HERE/.bin" "$HERE/evidence" "$HERE/replays"
cd "$HERE/harness"
go build -o "$HERE/.bin/vcheck" ./cmd/vcheck
echo "setup ok"
