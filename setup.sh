#!/bin/bash
# MANIFEST.setup_cmd: build everything once (offline) so that later checks only relink.
set -eu
HERE="$(cd "$(dirname "$0")" && pwd)"
. "$HERE/env.sh"
mkdir -p "$HERE/.bin" "$HERE/evidence" "$HERE/replays"
cd "$HERE/harness"
go build -o "$HERE/.bin/vcheck" ./cmd/vcheck
python3 maporder/patch.py "$(go env GOROOT)" "$HERE/.bin/maporder"
go build -overlay "$HERE/.bin/maporder/overlay.json" -tags verifmap -o "$HERE/.bin/mapchild" ./cmd/mapchild
echo "setup ok"
