#!/bin/bash
# MANIFEST.setup_cmd: build everything once (offline) so that later checks only relink.
set -eu
HERE="$(cd "$(dirname "$0")" && pwd)"
. "$HERE/env.sh"
mkdir -p "$HERE/.bin" "$HERE/evidence" "$HERE/replays"
cd "$HERE/harness"
go build -o "$HERE/.bin/vcheck" ./cmd/vcheck
python3 maporder/patch.py "$(go env GOROOT)" "$HERE/.bin/maporder"
go build -overlay "$HERE/.bin/maporder/overlay.json" -tags verifmap -o "$HERE/.bin/mapchild" ./cmd/mapchild
# warm the build cache for the instrumented (overlay) flavour and the -race flavour
go build -o "$HERE/.bin/instrument" ./cmd/instrument
TMPI="$(mktemp -d /tmp/verif-setup-XXXXXX)"
"$HERE/.bin/instrument" -repo "$VERIF_REPO" -rt "$HERE/harness/verifrt" -out "$TMPI/ins" server/job.go server/server.go server/wrapped_http/serve_mux.go prover/marshal.go prover/insertion_proving_system.go prover/deletion_proving_system.go
go build -overlay "$TMPI/ins/overlay.json" -tags verif -o "$HERE/.bin/vsched-setup" ./cmd/vsched
go build -race -o "$TMPI/racepass" ./cmd/racepass
(cd "$VERIF_REPO" && go build -o "$TMPI/gnark-mbu" .)
rm -rf "$TMPI" "$HERE/.bin/vsched-setup"
echo "setup ok"
