#!/bin/bash
# Own (non-agent) property-breaking edits, applied to /repo one at a time with sed, checked, reverted.
# usage: own_mutants.sh [ID-filter]    -> table on stdout, details in /tmp/own_mutants/
# (These edits all compile; that the existing suite still passes was checked for the ones marked [suite ok] in DESIGN.md.)
F=${1:-}
mkdir -p /tmp/own_mutants
run() { # id file sed-expr description
  local id=$1 file=$2 expr=$3 desc=$4
  [ -n "$F" ] && [ "$F" != "$id" ] && return
  cd /repo || exit 2
  git diff --quiet || { echo "/repo dirty"; exit 2; }
  sed -i "$expr" "$file"
  if git diff --quiet; then echo "| $id | $desc | DID-NOT-APPLY |"; return; fi
  if ! (export GOFLAGS=-mod=mod GOPROXY=off GOSUMDB=off GOTOOLCHAIN=local; go build ./... >/dev/null 2>&1); then git checkout -- .; echo "| $id | $desc | does-not-compile |"; return; fi
  local log=/tmp/own_mutants/$id-$(echo "$desc" | tr -c 'a-zA-Z0-9' '_' | cut -c1-40).log
  local t0=$(date +%s)
  (cd /verif && VERIF_EVIDENCE_DIR=/tmp/verif-mutant-evidence VERIF_BUDGET_S=${BUDGET:-300} ./check $id --tier quick > "$log" 2>&1); local rc=$?
  local t1=$(date +%s)
  git checkout -- .
  local n=$(grep -c '^VIOLATION' "$log")
  local verdict="not reported"; [ $rc -eq 1 ] && [ $n -gt 0 ] && verdict=detected; [ $rc -eq 2 ] && verdict=harness-error
  grep -q "NOT EXPLORED" "$log" && verdict=not-explored
  echo "| $id | $desc | $verdict ($((t1-t0))s) |"
}
echo "| check | edit | result |"; echo "|---|---|---|"
CU=prover/circuit_utils.go
run C01 $CU 's|\tapi.AssertIsEqual(root, gadget.PrevRoot)|\t_ = root|' "InsertionRound: emptiness check dropped"
run C01 $CU 's|currentIndex := api.Add(gadget.StartIndex, i)|currentIndex := api.Add(gadget.StartIndex, i+1)|' "InsertionProof: index off by one"
run C01 $CU 's|PrevRoot: prevRoot,|PrevRoot: gadget.PreRoot,|' "InsertionProof: running root not threaded (needs batch>=2)"
run C01 $CU 's|\tapi.AssertIsBoolean(gadget.Direction)|\t_ = gadget.Direction|' "ProofRound: AssertIsBoolean(Direction) dropped [EQUIVALENT in context: the bits come from api.ToBinary, which already constrains them; expected: not reported]"
run C01 prover/insertion_circuit.go 's|\tapi.AssertIsEqual(root, circuit.PostRoot)|\t_ = root|' "InsertionMbuCircuit: final root not compared with PostRoot"
run C02 $CU 's|api.ToBinary(gadget.Index, gadget.Depth+1)|api.ToBinary(gadget.Index, gadget.Depth+2)|' "DeletionRound: index one bit too wide"
run C02 $CU 's|preRootCorrectOrSkip := api.Or(preRootCorrect, skipFlag)|preRootCorrectOrSkip := api.Or(preRootCorrect, api.Or(skipFlag, currentPath[0]))|' "DeletionRound: odd indices skip the membership check"
run C02 $CU 's|\t\t\tRoot:         root,|\t\t\tRoot:         gadget.PreRoot,|' "DeletionProof: running root not threaded"
run C03 $CU 's|abstractor.CallVoid(api, ReducedModRCheck{Input: bitsLittleEndian})|_ = abstractor.CallVoid|' "ToReducedBigEndian: reducedness check dropped"
run C03 prover/deletion_circuit.go 's|bits_idx := abstractor.Call1(api, ToReducedBigEndian{Variable: circuit.DeletionIndices\[i\], Size: 32})|bits_idx := abstractor.Call1(api, ToReducedBigEndian{Variable: circuit.DeletionIndices[circuit.BatchSize-1-i], Size: 32})|' "DeletionMbuCircuit: indices packed in reverse order"
run C04 prover/keccak/keccak.go 's|Z = append(Z, S\[y\]\[x\]\[:\]...)|Z = append(Z, S[x][y][:]...)|' "Keccak squeeze: lanes transposed"
run C04 prover/keccak/keccak.go 's|c\[i\] = g.A\[(i+(laneSize-g.R))%len(g.A)\]|c[i] = g.A[(i+g.R)%len(g.A)]|' "Keccak Rot: rotation direction"
run C05 prover/poseidon/poseidon.go 's|h.Inp\[0\] = abstractor.Call(api, sbox{h.Inp\[0\]})|h.Inp[1] = abstractor.Call(api, sbox{h.Inp[1]})|' "Poseidon half round: S-box on element 1"
run C05 prover/poseidon/poseidon.go 's|	RP:        56,|	RP:        57,|' "Poseidon t=2: 57 partial rounds"
run C06 $CU 's|api.AssertIsEqual(succeeded, 1)|api.AssertIsEqual(failed, 0)|' "ReducedModRCheck: accepts the modulus itself"
run C06 $CU 's|if len(r.Input) < field.BitLen() {|if len(r.Input) <= field.BitLen() {|' "ReducedModRCheck: width equal to bit length treated as reduced"
run C06 $CU 's|	for i := len(bitsLittleEndian) - 8; i >= 0; i -= 8 {|	for i := len(bitsLittleEndian) - 8; i > 0; i -= 8 {|' "ToReducedBigEndian: least significant byte dropped"
run C07 prover/insertion_proving_system.go 's|		InputHash: inputHash,|		InputHash: 7,|' "VerifyInsertion: constant public input"
run C07 prover/deletion_proving_system.go 's|		PreRoot:         params.PreRoot,|		PreRoot:         params.PostRoot,|' "ProveDeletion: PreRoot taken from PostRoot"
run C08 prover/deletion_proving_system.go 's|binary.Write(buf, binary.BigEndian, p.DeletionIndices)|binary.Write(buf, binary.LittleEndian, p.DeletionIndices)|' "ComputeInputHashDeletion: little-endian indices"
run C09 server/server.go '0,/malformedBodyError(err).send(w)/! {0,/malformedBodyError(err).send(w)/! s|malformedBodyError(err).send(w)|provingError(err).send(w)|}' "handler: malformed body reported as proving_error"
run C09 server/server.go 's|if r.Method != http.MethodPost {|if r.Method == http.MethodGet {|' "handler: only GET refused"
run C10 prover/marshal.go 's|	proofJson.Bs = \[2\]\[2\]string{|	proofHexNumbers[2], proofHexNumbers[3] = proofHexNumbers[3], proofHexNumbers[2]\n	proofJson.Bs = [2][2]string{|' "Proof.MarshalJSON: B.x coordinates swapped"
run C11 prover/marshal.go '/func (ps \*ProvingSystem) WriteRawTo/,/^}/{s/binary.BigEndian.PutUint32(intBuf\[:\], ps.TreeDepth)/binary.BigEndian.PutUint32(intBuf[:], ps.BatchSize)/}' "WriteRawTo: batch size written in the depth slot"
run C12 prover/deletion_circuit.go 's|if circuit.Depth > 31 {|if circuit.Depth > 32 {|' "deletion depth guard off by one"
run C12 prover/insertion_circuit.go '/^func ImportInsertionSetup/,/^}/{s|IdComms:      make(\[\]frontend.Variable, batchSize),|IdComms:      make([]frontend.Variable, batchSize+1),|}' "ImportInsertionSetup builds a different circuit"
run C13 server/server.go 's|^type proveHandler struct {|var sharedParams prover.InsertionParameters\n\ntype proveHandler struct {|; s|		var params prover.InsertionParameters|		params := \&sharedParams; _ = params|; s|err = json.Unmarshal(buf, \&params)|err = json.Unmarshal(buf, params)|; s|handler.provingSystem.ProveInsertion(\&params)|handler.provingSystem.ProveInsertion(params)|' "handler: insertion parameters hoisted to package scope"
run C14 server/server.go 's|err := server.Shutdown(context.Background())|_ = context.Background; err := server.Close()|' "Shutdown replaced by Close (in-flight requests dropped)"
run C14 server/job.go 's|		for _, job := range jobs {\n			job.AwaitStop()|XX|; /for _, job := range jobs {/{n;s|job.AwaitStop()|_ = job|}' "CombineJobs does not await the jobs"
run C15 prover/marshal.go '/keyRead, err = ps.ConstraintSystem.ReadFrom(r)/{n;n;s/if err != nil {/if err != nil \&\& err != io.EOF {/}' "UnsafeReadFrom: EOF in the constraint-system section ignored"
run C16 prover/marshal.go 's|	if !ok {|	if !ok \&\& len(s) > 3 {|' "fromHex: short non-numbers accepted"
run C16 prover/marshal.go '0,/paramsJson.PostRoot = toHex(&p.PostRoot)/s//paramsJson.PostRoot = toHex(\&p.PreRoot)/' "InsertionParameters.MarshalJSON: postRoot encoded from preRoot"
run C17 $CU 's|currentPath := api.ToBinary(gadget.Index, gadget.Depth)$|currentPath := api.ToBinary(gadget.Index, gadget.Depth+1)[:gadget.Depth]|' "circuit changed without regenerating the Lean model"
run C17 prover/extractor.go 's|		BatchSize: int(batchSize),\n		Depth: int(treeDepth),\n	}\n\n	return|XX|; 0,/IdComms: make(\[\]frontend.Variable, batchSize),/s//IdComms: make([]frontend.Variable, batchSize), \/\/ deletion/' "no-op edit of the extractor (control: must NOT be reported)"
run C18 poseidon_tree/poseidon_tree.go 's|	return index\&(1<<(depth-1)) == 0|	return index\&(1<<depth) == 0|' "indexIsLeft: wrong bit"
run C18 poseidon_tree/poseidon_tree.go 's|		out\[node.depth()-1\] = node.left.value()|		out[node.depth()-1] = node.right.value()|' "writeProof: wrong sibling on the right branch"
run C19 main.go 's|						return fmt.Errorf("invalid number: %s", context.String("input-hash"))|						inputHash.SetInt64(0)|' "verify: unparsable input hash treated as 0 [no violation: the proof does not verify for 0, exit stays non-zero; expected: not reported]"
run C20 server/wrapped_http/serve_mux.go 's|s.server.Handle(pattern, wrappedHandler)|_ = wrappedHandler; s.server.Handle(pattern, handler)|' "handler registered without the metrics wrapper"
run C20 server/wrapped_http/serve_mux.go 's|}, \[\]string{"method", "code"},\n	)\n	requestDuration|XX|; 0,/\[\]string{"method", "code"},/s//[]string{"code", "method"},/' "request counter labels declared in the other order [EQUIVALENT: promhttp matches labels by name; expected: not reported]"
