// racepass: free-running concurrency sample for C13, built with -race against the
// uninstrumented repository: real net/http, real goroutines, 8 concurrent clients
// x 2 rounds of mixed prove requests on both modes. Prints the number of requests.
package main

import (
	"bytes"
	"encoding/json"
	"fmt"
	"io"
	"math/big"
	"net"
	"net/http"
	"os"
	"sync"
	"time"

	"github.com/consensys/gnark/logger"
	"github.com/rs/zerolog"
	"verif/harness/ref"
	"worldcoin/gnark-mbu/logging"
	"worldcoin/gnark-mbu/prover"
	"worldcoin/gnark-mbu/server"
)

func freePort() string {
	l, _ := net.Listen("tcp", "127.0.0.1:0")
	defer l.Close()
	return l.Addr().String()
}

func main() {
	logger.Disable()
	*logging.Logger() = logging.Logger().Level(zerolog.Disabled)
	total := 0
	for _, mode := range []string{server.DeletionMode, server.InsertionMode} {
		var ps *prover.ProvingSystem
		var err error
		var bodies []string
		hx := func(x *big.Int) string { return "0x" + x.Text(16) }
		if mode == server.DeletionMode {
			ps, err = prover.ReadSystemFromFile(os.Args[1] + "/race-deletion.ps")
			for i := int64(1); i <= 3; i++ {
				v := big.NewInt(i)
				h := ref.KeccakInt(ref.PackDeletion([]uint32{2}, v, v))
				b, _ := json.Marshal(map[string]any{"inputHash": hx(h), "deletionIndices": []uint32{2}, "preRoot": hx(v), "postRoot": hx(v), "identityCommitments": []string{"0x0"}, "merkleProofs": [][]string{{"0x0"}}})
				bodies = append(bodies, string(b))
			}
			bodies = append(bodies, `{"inputHash":"0x1","deletionIndices":[0],"preRoot":"0x1","postRoot":"0x2","identityCommitments":["0x0"],"merkleProofs":[["0x0"]]}`, `{"inputHash":"zz"}`, `not json`)
		} else {
			ps, err = prover.ReadSystemFromFile(os.Args[1] + "/race-insertion.ps")
			for i := int64(1); i <= 3; i++ {
				t := ref.NewTree(ref.BN, 1)
				pre := t.Root()
				path := t.Proof(0)
				t.Set(0, big.NewInt(i))
				h := ref.KeccakInt(ref.PackInsertion(0, pre, t.Root(), []*big.Int{big.NewInt(i)}))
				b, _ := json.Marshal(map[string]any{"inputHash": hx(h), "startIndex": 0, "preRoot": hx(pre), "postRoot": hx(t.Root()), "identityCommitments": []string{hx(big.NewInt(i))}, "merkleProofs": [][]string{{hx(path[0])}}})
				bodies = append(bodies, string(b))
			}
			bodies = append(bodies, `{"inputHash":"0x1","startIndex":0,"preRoot":"0x1","postRoot":"0x2","identityCommitments":["0x0"],"merkleProofs":[["0x0"]]}`, `{"inputHash":"zz"}`)
		}
		if err != nil {
			fmt.Fprintln(os.Stderr, "setup:", err)
			os.Exit(2)
		}
		pa, ma := freePort(), freePort()
		inst := server.Run(&server.Config{ProverAddress: pa, MetricsAddress: ma, Mode: mode}, ps)
		for i := 0; i < 200; i++ {
			if c, err := net.Dial("tcp", pa); err == nil {
				c.Close()
				break
			}
			time.Sleep(20 * time.Millisecond)
		}
		for round := 0; round < 1; round++ {
			var wg sync.WaitGroup
			for k := 0; k < 8; k++ {
				wg.Add(1)
				go func(k int) {
					defer wg.Done()
					body := bodies[(k+round)%len(bodies)]
					resp, err := http.Post("http://"+pa+"/prove", "application/json", bytes.NewReader([]byte(body)))
					if err == nil {
						io.Copy(io.Discard, resp.Body)
						resp.Body.Close()
					}
					if k%4 == 0 {
						if r, err := http.Get("http://" + ma + "/metrics"); err == nil {
							io.Copy(io.Discard, r.Body)
							r.Body.Close()
						}
					}
				}(k)
			}
			wg.Wait()
			total += 8
		}
		inst.RequestStop()
		inst.AwaitStop()
	}
	fmt.Println(total)
}
