package main

import (
	"fmt"
	"os"

	"verif/harness/checks"
)

func main() {
	if len(os.Args) < 2 {
		fmt.Fprintln(os.Stderr, "usage: vcheck <ID> [--tier quick|thorough] [--replay file]")
		os.Exit(2)
	}
	id := os.Args[1]
	os.Args = append(os.Args[:1], os.Args[2:]...)
	f, ok := checks.Registry[id]
	if !ok {
		fmt.Fprintln(os.Stderr, "unknown check", id)
		os.Exit(2)
	}
	f()
}
