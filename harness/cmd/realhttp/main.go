// realhttp runs the conformance scenarios of the vhttp model against the REAL
// net/http.Server on loopback ports, and the start/stop protocol of the repository
// (server.Run / RequestStop / AwaitStop) with the stop forced into the window
// between net.Listen and Serve's listener registration. The window is forced with
// net/http's own unexported test hook (testHookServerServe), reached through
// go:linkname (build with -ldflags=-checklinkname=0). Output: one JSON object
// {scenario: [observations...]}.
package main

import (
	"context"
	"encoding/json"
	"errors"
	"fmt"
	"io"
	"net"
	"net/http"
	"os"
	"strings"
	"sync"
	"time"
	_ "unsafe"

	"github.com/consensys/gnark/logger"
	"github.com/rs/zerolog"
	"worldcoin/gnark-mbu/logging"
	"worldcoin/gnark-mbu/server"
)

//go:linkname testHookServerServe net/http.testHookServerServe
var testHookServerServe func(*http.Server, net.Listener)

var (
	hookMu sync.Mutex
	hooks  = map[string]func(){} // addr -> function to run inside the window
)

func init() {
	testHookServerServe = func(s *http.Server, l net.Listener) {
		hookMu.Lock()
		f := hooks[s.Addr]
		hookMu.Unlock()
		if f != nil {
			f()
		}
	}
}

func freeAddr() string {
	l, err := net.Listen("tcp", "127.0.0.1:0")
	if err != nil {
		panic(err)
	}
	defer l.Close()
	return l.Addr().String()
}

func bound(addr string) string {
	l, err := net.Listen("tcp", addr)
	if err != nil {
		return "bound"
	}
	l.Close()
	return "free"
}

func errName(err error) string {
	switch {
	case err == nil:
		return "nil"
	case errors.Is(err, http.ErrServerClosed):
		return "ErrServerClosed"
	case strings.Contains(err.Error(), "address already in use"):
		return "address-in-use"
	}
	return "error"
}

func waitAccepting(addr string) {
	for i := 0; i < 500; i++ {
		if r, err := http.Get("http://" + addr + "/ping"); err == nil {
			io.Copy(io.Discard, r.Body)
			r.Body.Close()
			return
		}
		time.Sleep(10 * time.Millisecond)
	}
	panic("server never came up on " + addr)
}

type obs []string

func (o *obs) add(f string, a ...any) { *o = append(*o, fmt.Sprintf(f, a...)) }

func get(addr, path string) string {
	c := &http.Client{Transport: &http.Transport{DisableKeepAlives: true}}
	r, err := c.Get("http://" + addr + path)
	if err != nil {
		if strings.Contains(err.Error(), "refused") {
			return "refused"
		}
		return "dropped"
	}
	defer r.Body.Close()
	b, err := io.ReadAll(r.Body)
	if err != nil {
		return "dropped"
	}
	return fmt.Sprintf("complete:%d:%s", r.StatusCode, b)
}

func main() {
	logger.Disable()
	*logging.Logger() = logging.Logger().Level(zerolog.Disabled)
	out := map[string]obs{}
	gate := make(chan struct{})
	entered := make(chan struct{}, 4)
	mux := func() http.Handler {
		m := http.NewServeMux()
		m.HandleFunc("/ping", func(w http.ResponseWriter, r *http.Request) { w.Write([]byte("pong")) })
		m.HandleFunc("/slow", func(w http.ResponseWriter, r *http.Request) {
			entered <- struct{}{}
			<-gate
			w.Write([]byte("slow-done"))
		})
		return m
	}

	// T1: Shutdown wholly before ListenAndServe
	{
		var o obs
		addr := freeAddr()
		s := &http.Server{Addr: addr, Handler: mux()}
		o.add("shutdown=%s", errName(s.Shutdown(context.Background())))
		o.add("listen=%s", errName(s.ListenAndServe()))
		o.add("addr=%s", bound(addr))
		out["T1 shutdown-before-listen"] = o
	}
	// T2: Shutdown while ListenAndServe is between net.Listen and trackListener
	{
		var o obs
		addr := freeAddr()
		inWindow, release := make(chan struct{}), make(chan struct{})
		hookMu.Lock()
		hooks[addr] = func() { close(inWindow); <-release }
		hookMu.Unlock()
		s := &http.Server{Addr: addr, Handler: mux()}
		ret := make(chan error, 1)
		go func() { ret <- s.ListenAndServe() }()
		<-inWindow
		o.add("in-window addr=%s", bound(addr))
		o.add("shutdown=%s", errName(s.Shutdown(context.Background())))
		o.add("after-shutdown addr=%s", bound(addr))
		close(release)
		o.add("listen=%s", errName(<-ret))
		o.add("addr=%s", bound(addr))
		out["T2 shutdown-in-window"] = o
	}
	// T3: idle server; second ListenAndServe after shutdown
	{
		var o obs
		addr := freeAddr()
		s := &http.Server{Addr: addr, Handler: mux()}
		ret := make(chan error, 1)
		go func() { ret <- s.ListenAndServe() }()
		waitAccepting(addr)
		o.add("request=%s", get(addr, "/ping"))
		o.add("shutdown=%s", errName(s.Shutdown(context.Background())))
		o.add("listen=%s", errName(<-ret))
		o.add("addr=%s", bound(addr))
		o.add("request-after=%s", get(addr, "/ping"))
		o.add("listen-again=%s", errName(s.ListenAndServe()))
		out["T3 idle-shutdown"] = o
	}
	// T4: request in flight during Shutdown
	{
		var o obs
		addr := freeAddr()
		s := &http.Server{Addr: addr, Handler: mux()}
		ret := make(chan error, 1)
		go func() { ret <- s.ListenAndServe() }()
		waitAccepting(addr)
		res := make(chan string, 1)
		go func() { res <- get(addr, "/slow") }()
		<-entered
		sd := make(chan error, 1)
		go func() { sd <- s.Shutdown(context.Background()) }()
		o.add("listen=%s", errName(<-ret)) // the accept loop ends as soon as the listener is closed
		o.add("while-in-flight addr=%s", bound(addr))
		select {
		case e := <-sd:
			o.add("shutdown-returned-early=%s", errName(e))
		default:
			o.add("shutdown-pending")
		}
		gate <- struct{}{}
		o.add("request=%s", <-res)
		o.add("shutdown=%s", errName(<-sd))
		out["T4 in-flight-shutdown"] = o
	}
	// T5: second server on a bound address
	{
		var o obs
		addr := freeAddr()
		a := &http.Server{Addr: addr, Handler: mux()}
		ret := make(chan error, 1)
		go func() { ret <- a.ListenAndServe() }()
		waitAccepting(addr)
		b := &http.Server{Addr: addr, Handler: mux()}
		o.add("second-listen=%s", errName(b.ListenAndServe()))
		a.Shutdown(context.Background())
		<-ret
		o.add("addr=%s", bound(addr))
		out["T5 address-in-use"] = o
	}
	// T6: Close with a request in flight
	{
		var o obs
		addr := freeAddr()
		s := &http.Server{Addr: addr, Handler: mux()}
		ret := make(chan error, 1)
		go func() { ret <- s.ListenAndServe() }()
		waitAccepting(addr)
		res := make(chan string, 1)
		go func() { res <- get(addr, "/slow") }()
		<-entered
		o.add("close=%s", errName(s.Close()))
		o.add("listen=%s", errName(<-ret))
		o.add("request=%s", <-res)
		o.add("addr=%s", bound(addr))
		gate <- struct{}{} // let the orphaned handler finish
		out["T6 close-in-flight"] = o
	}
	// T7: a connection sits in the kernel backlog while the server is in the window and is then shut down
	{
		var o obs
		addr := freeAddr()
		inWindow, release := make(chan struct{}), make(chan struct{})
		hookMu.Lock()
		hooks[addr] = func() { close(inWindow); <-release }
		hookMu.Unlock()
		s := &http.Server{Addr: addr, Handler: mux()}
		ret := make(chan error, 1)
		go func() { ret <- s.ListenAndServe() }()
		<-inWindow
		res := make(chan string, 1)
		go func() { res <- get(addr, "/ping") }()
		time.Sleep(100 * time.Millisecond) // let the TCP handshake complete in the kernel
		s.Shutdown(context.Background())
		close(release)
		o.add("listen=%s", errName(<-ret))
		r := <-res
		if r != "complete:200:pong" {
			r = "not-served"
		}
		o.add("request=%s", r)
		out["T7 backlog-in-window"] = o
	}
	// R1: the repository's start/stop protocol with the stop forced into the prover server's window
	{
		var o obs
		pa, ma := freeAddr(), freeAddr()
		inWindow, release := make(chan struct{}), make(chan struct{})
		hookMu.Lock()
		hooks[pa] = func() { close(inWindow); <-release }
		hookMu.Unlock()
		inst := server.Run(&server.Config{ProverAddress: pa, MetricsAddress: ma, Mode: server.DeletionMode}, nil)
		<-inWindow
		inst.RequestStop()
		returned := make(chan struct{})
		go func() { inst.AwaitStop(); close(returned) }()
		select {
		case <-returned:
			// AwaitStop came back while ListenAndServe still holds the bound listener
			o.add("await-returned-in-window prover=%s metrics=%s", bound(pa), bound(ma))
			close(release)
		case <-time.After(1500 * time.Millisecond):
			close(release)
			<-returned
			o.add("await-returned-after-start-returned prover=%s metrics=%s", bound(pa), bound(ma))
		}
		out["R1 repo-stop-in-window"] = o
	}
	// R2: two start/stop cycles of the repository's server on the same addresses, one request in between
	{
		var o obs
		pa, ma := freeAddr(), freeAddr()
		for cyc := 0; cyc < 2; cyc++ {
			inst := server.Run(&server.Config{ProverAddress: pa, MetricsAddress: ma, Mode: server.DeletionMode}, nil)
			for i := 0; i < 500; i++ {
				if c, err := net.Dial("tcp", pa); err == nil {
					c.Close()
					break
				}
				time.Sleep(10 * time.Millisecond)
			}
			r := get(pa, "/prove")
			if strings.HasPrefix(r, "complete:405") {
				r = "405"
			}
			o.add("cycle%d request=%s", cyc, r)
			inst.RequestStop()
			inst.AwaitStop()
			o.add("cycle%d prover=%s metrics=%s", cyc, bound(pa), bound(ma))
		}
		out["R2 repo-two-cycles"] = o
	}
	js, _ := json.MarshalIndent(out, "", " ")
	os.Stdout.Write(js)
	fmt.Println()
}
