//go:build verif

// vsched: checks that run the repository's server package (instrumented at check
// time) under the cooperative scheduler: C14, C13, C09, C20.
package main

import (
	"fmt"
	"os"
	"runtime"
	"runtime/pprof"
	"time"

	"github.com/consensys/gnark/logger"
	"github.com/rs/zerolog"
	"worldcoin/gnark-mbu/logging"
)

var registry = map[string]func(){}

func main() {
	logger.Disable()
	*logging.Logger() = logging.Logger().Level(zerolog.Disabled)
	if len(os.Args) < 2 {
		fmt.Fprintln(os.Stderr, "usage: vsched <ID> [--tier ..] [--replay file]")
		os.Exit(2)
	}
	if pf := os.Getenv("VSCHED_PROF"); pf != "" {
		f, _ := os.Create(pf)
		pprof.StartCPUProfile(f)
		defer pprof.StopCPUProfile()
		go func() { time.Sleep(25 * time.Second); pprof.StopCPUProfile(); f.Close() }()
	}
	id := os.Args[1]
	os.Args = append(os.Args[:1], os.Args[2:]...)
	f, ok := registry[id]
	if !ok {
		fmt.Fprintln(os.Stderr, "unknown check", id)
		os.Exit(2)
	}
	f()
}

func workers() int {
	if s := os.Getenv("VSCHED_WORKERS"); s != "" {
		var n int
		fmt.Sscan(s, &n)
		if n > 0 {
			return n
		}
	}
	return runtime.NumCPU()
}
