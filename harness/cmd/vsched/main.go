//go:build verif

// vsched: the checks that run the repository's server package (instrumented at
// check time) under the cooperative scheduler: C14, C13, C09, C20. Same registry
// as vcheck, built with -tags verif and the instrumentation overlay.
package main

import (
	"fmt"
	"os"
	"runtime/pprof"
	"time"

	"verif/harness/checks"
)

func main() {
	if len(os.Args) < 2 {
		fmt.Fprintln(os.Stderr, "usage: vsched <ID> [--tier ..] [--replay file]")
		os.Exit(2)
	}
	if pf := os.Getenv("VSCHED_PROF"); pf != "" {
		f, _ := os.Create(pf)
		pprof.StartCPUProfile(f)
		go func() { time.Sleep(25 * time.Second); pprof.StopCPUProfile(); f.Close() }()
	}
	id := os.Args[1]
	os.Args = append(os.Args[:1], os.Args[2:]...)
	f, ok := checks.Registry[id]
	if !ok {
		fmt.Fprintln(os.Stderr, "unknown check", id)
		os.Exit(2)
	}
	f()
}
