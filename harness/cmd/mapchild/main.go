//go:build verifmap

// mapchild is built with the patched runtime (map iteration start owned through
// VERIF_MAPSEED). It performs one compilation/extraction and prints a JSON line.
package main

import (
	"crypto/sha256"
	"encoding/hex"
	"encoding/json"
	"fmt"
	"os"
	"runtime"
	"strconv"
	"strings"

	"github.com/consensys/gnark/constraint"
	"github.com/consensys/gnark/logger"
	"github.com/rs/zerolog"
	"worldcoin/gnark-mbu/logging"
	"worldcoin/gnark-mbu/prover"
)

func main() {
	logger.Disable()
	*logging.Logger() = logging.Logger().Level(zerolog.Disabled)
	// args: what mode depth batch [pk vk]
	what, mode := os.Args[1], os.Args[2]
	d, _ := strconv.Atoi(os.Args[3])
	b, _ := strconv.Atoi(os.Args[4])
	out := map[string]any{"what": what, "mode": mode, "d": d, "b": b, "gomaxprocs": runtime.GOMAXPROCS(0)}
	var digests []string
	if what == "buildseq" {
		// several dimensions compiled one after the other in ONE process (os.Args[5] = "d,b;d,b;...")
		for _, pair := range strings.Split(os.Args[5], ";") {
			var dd, bb int
			fmt.Sscanf(pair, "%d,%d", &dd, &bb)
			var ccs constraint.ConstraintSystem
			var err error
			if mode == "insertion" {
				ccs, err = prover.BuildR1CSInsertion(uint32(dd), uint32(bb))
			} else {
				ccs, err = prover.BuildR1CSDeletion(uint32(dd), uint32(bb))
			}
			if err != nil {
				digests = append(digests, "error: "+err.Error())
				continue
			}
			h := sha256.New()
			ccs.WriteTo(h)
			digests = append(digests, hex.EncodeToString(h.Sum(nil)))
		}
		out["digests"] = digests
		it, mb, on := runtime.VerifMapStats()
		out["map_iterations"], out["map_max_B"], out["seed_on"] = it, mb, on
		js, _ := json.Marshal(out)
		fmt.Println(string(js))
		return
	}
	if what == "hist" {
		// a history of compilations / extractions in ONE process: os.Args[5] = "op:mode:d,b;..." with op in
		// {build, lean, setup}; one digest (or "error: ...") per step
		for _, step := range strings.Split(os.Args[5], ";") {
			f := strings.Split(step, ":")
			var dd, bb int
			fmt.Sscanf(f[2], "%d,%d", &dd, &bb)
			var ccs constraint.ConstraintSystem
			var err error
			var text string
			func() {
				defer func() {
					if r := recover(); r != nil {
						err = fmt.Errorf("panic: %v", r)
					}
				}()
				switch f[0] {
				case "build":
					if f[1] == "insertion" {
						ccs, err = prover.BuildR1CSInsertion(uint32(dd), uint32(bb))
					} else {
						ccs, err = prover.BuildR1CSDeletion(uint32(dd), uint32(bb))
					}
				case "lean":
					text, err = prover.ExtractLean(uint32(dd), uint32(bb))
				}
			}()
			if err != nil {
				digests = append(digests, "error: "+err.Error())
				continue
			}
			h := sha256.New()
			if ccs != nil {
				ccs.WriteTo(h)
			} else {
				h.Write([]byte(text))
			}
			digests = append(digests, hex.EncodeToString(h.Sum(nil)))
		}
		out["digests"] = digests
		it, mb, on := runtime.VerifMapStats()
		out["map_iterations"], out["map_max_B"], out["seed_on"] = it, mb, on
		js, _ := json.Marshal(out)
		fmt.Println(string(js))
		return
	}
	reps := 1
	if what == "build3" || what == "lean3" {
		reps = 3
	}
	for i := 0; i < reps; i++ {
		var ccs constraint.ConstraintSystem
		var err error
		var text string
		switch what {
		case "build", "build3":
			if mode == "insertion" {
				ccs, err = prover.BuildR1CSInsertion(uint32(d), uint32(b))
			} else {
				ccs, err = prover.BuildR1CSDeletion(uint32(d), uint32(b))
			}
		case "setup":
			var ps *prover.ProvingSystem
			if mode == "insertion" {
				ps, err = prover.SetupInsertion(uint32(d), uint32(b))
			} else {
				ps, err = prover.SetupDeletion(uint32(d), uint32(b))
			}
			if err == nil {
				ccs = ps.ConstraintSystem
			}
		case "import":
			var ps *prover.ProvingSystem
			if mode == "insertion" {
				ps, err = prover.ImportInsertionSetup(uint32(d), uint32(b), os.Args[5], os.Args[6])
			} else {
				ps, err = prover.ImportDeletionSetup(uint32(d), uint32(b), os.Args[5], os.Args[6])
			}
			if err == nil {
				ccs = ps.ConstraintSystem
				out["depth_field"], out["batch_field"] = ps.TreeDepth, ps.BatchSize
			}
		case "lean", "lean3":
			text, err = prover.ExtractLean(uint32(d), uint32(b))
		}
		if err != nil {
			out["error"] = err.Error()
			break
		}
		h := sha256.New()
		if ccs != nil {
			if _, err := ccs.WriteTo(h); err != nil {
				out["error"] = err.Error()
				break
			}
			out["public"] = ccs.GetNbPublicVariables()
			out["constraints"] = ccs.GetNbConstraints()
		} else {
			h.Write([]byte(text))
			if len(os.Args) > 5 && os.Args[5] != "" && i == 0 {
				os.WriteFile(os.Args[5], []byte(text), 0o644)
			}
		}
		digests = append(digests, hex.EncodeToString(h.Sum(nil)))
	}
	out["digests"] = digests
	it, mb, on := runtime.VerifMapStats()
	out["map_iterations"], out["map_max_B"], out["seed_on"] = it, mb, on
	js, _ := json.Marshal(out)
	fmt.Println(string(js))
}
