// instrument rewrites selected files of the repository for the vsched scheduler
// and writes a `go build -overlay` file that also adds the virtual packages
// worldcoin/gnark-mbu/verifrt/{vsched,vsync,vhttp}.
//
// usage: instrument -repo /repo -rt /verif/harness/verifrt -out DIR file.go...
package main

import (
	"bytes"
	"encoding/json"
	"flag"
	"fmt"
	"go/ast"
	"go/parser"
	"go/printer"
	"go/token"
	"os"
	"path/filepath"
	"strconv"
	"strings"
)

const rtPath = "worldcoin/gnark-mbu/verifrt/"

type rewriter struct {
	fset       *token.FileSet
	file       string
	used       map[string]bool // vsched, vsync, vhttp
	err        error
	httpServer bool
	funcLevel  bool
	inInit     bool
	tmp        int
}

// chanNames: names (variables, fields, parameters) declared with a channel type or initialised with
// make(chan ...) in any of the files being instrumented; a `range` over one of them is a channel range.
var chanNames = map[string]bool{}

func collectChanNames(f *ast.File) {
	isMakeChan := func(e ast.Expr) bool {
		c, ok := e.(*ast.CallExpr)
		if !ok || len(c.Args) == 0 {
			return false
		}
		id, ok := c.Fun.(*ast.Ident)
		if !ok || id.Name != "make" {
			return false
		}
		_, ok = c.Args[0].(*ast.ChanType)
		return ok
	}
	base := func(e ast.Expr) string {
		switch x := e.(type) {
		case *ast.Ident:
			return x.Name
		case *ast.SelectorExpr:
			return x.Sel.Name
		}
		return ""
	}
	ast.Inspect(f, func(n ast.Node) bool {
		switch x := n.(type) {
		case *ast.ValueSpec:
			_, typed := x.Type.(*ast.ChanType)
			for i, nm := range x.Names {
				if typed || (i < len(x.Values) && isMakeChan(x.Values[i])) {
					chanNames[nm.Name] = true
				}
			}
		case *ast.AssignStmt:
			for i, l := range x.Lhs {
				if i < len(x.Rhs) && isMakeChan(x.Rhs[i]) && base(l) != "" {
					chanNames[base(l)] = true
				}
			}
		case *ast.Field:
			if _, ok := x.Type.(*ast.ChanType); ok {
				for _, nm := range x.Names {
					chanNames[nm.Name] = true
				}
			}
		}
		return true
	})
}

// localKinds: for the function declaration being rewritten, what its own parameters and local
// declarations say about a name: 1 = channel, 2 = certainly not a channel (declared with another type or
// initialised from a literal / make of a slice or map). A plain identifier is looked up here first, so that
// e.g. a slice parameter `jobs` is not mistaken for a channel field `jobs` of another file.
var localKinds = map[string]int{}

func collectLocalKinds(fd *ast.FuncDecl) {
	localKinds = map[string]int{}
	set := func(name string, kind int) {
		if name == "_" || name == "" {
			return
		}
		if old, ok := localKinds[name]; ok && old != kind {
			localKinds[name] = 0 // declared both ways in nested scopes: undecided, fall back to the global table
			return
		}
		localKinds[name] = kind
	}
	kindOfType := func(t ast.Expr) int {
		if t == nil {
			return 0
		}
		if _, ok := t.(*ast.ChanType); ok {
			return 1
		}
		return 2
	}
	kindOfValue := func(e ast.Expr) int {
		switch v := e.(type) {
		case *ast.CompositeLit, *ast.BasicLit, *ast.FuncLit:
			return 2
		case *ast.UnaryExpr:
			if v.Op == token.AND {
				return 2
			}
		case *ast.CallExpr:
			if id, ok := v.Fun.(*ast.Ident); ok && (id.Name == "make" || id.Name == "new") && len(v.Args) > 0 {
				return kindOfType(v.Args[0])
			}
			if id, ok := v.Fun.(*ast.Ident); ok && (id.Name == "len" || id.Name == "cap" || id.Name == "append") {
				return 2
			}
		}
		return 0
	}
	fl := func(l *ast.FieldList) {
		if l == nil {
			return
		}
		for _, f := range l.List {
			for _, nm := range f.Names {
				set(nm.Name, kindOfType(f.Type))
			}
		}
	}
	fl(fd.Recv)
	fl(fd.Type.Params)
	fl(fd.Type.Results)
	if fd.Body == nil {
		return
	}
	ast.Inspect(fd.Body, func(n ast.Node) bool {
		switch x := n.(type) {
		case *ast.FuncLit:
			fl(x.Type.Params)
			fl(x.Type.Results)
		case *ast.ValueSpec:
			for i, nm := range x.Names {
				k := kindOfType(x.Type)
				if k == 0 && i < len(x.Values) && len(x.Values) == len(x.Names) {
					k = kindOfValue(x.Values[i])
				}
				if k != 0 {
					set(nm.Name, k)
				}
			}
		case *ast.AssignStmt:
			if x.Tok == token.DEFINE && len(x.Lhs) == len(x.Rhs) {
				for i, l := range x.Lhs {
					if id, ok := l.(*ast.Ident); ok {
						if k := kindOfValue(x.Rhs[i]); k != 0 {
							set(id.Name, k)
						}
					}
				}
			}
		case *ast.RangeStmt:
			// iteration variables of a two-variable range: index is an int/key, never decided here
		}
		return true
	})
}

func isChanExpr(e ast.Expr) bool {
	switch x := e.(type) {
	case *ast.Ident:
		if k := localKinds[x.Name]; k != 0 {
			return k == 1
		}
		return chanNames[x.Name]
	case *ast.SelectorExpr:
		return chanNames[x.Sel.Name]
	case *ast.ParenExpr:
		return isChanExpr(x.X)
	}
	return false
}

func sel(pkg, name string) *ast.SelectorExpr {
	return &ast.SelectorExpr{X: ast.NewIdent(pkg), Sel: ast.NewIdent(name)}
}

func (r *rewriter) fail(n ast.Node, what string) {
	if r.err == nil {
		r.err = fmt.Errorf("%s:%d: unsupported construct: %s", r.file, r.fset.Position(n.Pos()).Line, what)
	}
}

func isPkgSel(e ast.Expr, pkg, name string) bool {
	s, ok := e.(*ast.SelectorExpr)
	if !ok {
		return false
	}
	id, ok := s.X.(*ast.Ident)
	return ok && id.Name == pkg && s.Sel.Name == name
}

// expr rewrites an expression tree bottom-up.
func (r *rewriter) expr(e ast.Expr) ast.Expr {
	if e == nil {
		return nil
	}
	switch x := e.(type) {
	case *ast.ChanType:
		r.used["vsched"] = true
		return &ast.StarExpr{X: &ast.IndexExpr{X: sel("vsched", "Chan"), Index: r.expr(x.Value)}}
	case *ast.UnaryExpr:
		x.X = r.expr(x.X)
		if x.Op == token.ARROW {
			return &ast.CallExpr{Fun: &ast.SelectorExpr{X: x.X, Sel: ast.NewIdent("Recv")}}
		}
		return x
	case *ast.CallExpr:
		if id, ok := x.Fun.(*ast.Ident); ok && id.Name == "make" && len(x.Args) >= 1 {
			if ct, ok := x.Args[0].(*ast.ChanType); ok {
				r.used["vsched"] = true
				call := &ast.CallExpr{Fun: &ast.IndexExpr{X: sel("vsched", "NewChan"), Index: r.expr(ct.Value)}}
				for _, a := range x.Args[1:] {
					call.Args = append(call.Args, r.expr(a))
				}
				return call
			}
		}
		if id, ok := x.Fun.(*ast.Ident); ok && id.Name == "close" && len(x.Args) == 1 {
			return &ast.CallExpr{Fun: &ast.SelectorExpr{X: r.expr(x.Args[0]), Sel: ast.NewIdent("Close")}}
		}
		if isPkgSel(x.Fun, "time", "Sleep") {
			r.used["vsched"] = true
			x.Fun = sel("vsched", "Sleep")
		} else {
			x.Fun = r.expr(x.Fun)
		}
		for i := range x.Args {
			x.Args[i] = r.expr(x.Args[i])
		}
		return x
	case *ast.SelectorExpr:
		if r.httpServer && isPkgSel(x, "http", "Server") {
			r.used["vhttp"] = true
			return sel("vhttp", "Server")
		}
		for _, n := range []string{"Mutex", "RWMutex", "WaitGroup", "Once", "Pool"} {
			if isPkgSel(x, "sync", n) {
				r.used["vsync"] = true
				return sel("vsync", n)
			}
		}
		x.X = r.expr(x.X)
		return x
	case *ast.FuncLit:
		x.Type = r.expr(x.Type).(*ast.FuncType)
		r.block(x.Body)
		return x
	case *ast.FuncType:
		r.fields(x.Params)
		r.fields(x.Results)
		return x
	case *ast.CompositeLit:
		x.Type = r.expr(x.Type)
		for i := range x.Elts {
			x.Elts[i] = r.expr(x.Elts[i])
		}
		return x
	case *ast.KeyValueExpr:
		x.Key = r.expr(x.Key)
		x.Value = r.expr(x.Value)
		return x
	case *ast.ParenExpr:
		x.X = r.expr(x.X)
		return x
	case *ast.StarExpr:
		x.X = r.expr(x.X)
		return x
	case *ast.BinaryExpr:
		x.X = r.expr(x.X)
		x.Y = r.expr(x.Y)
		return x
	case *ast.IndexExpr:
		x.X = r.expr(x.X)
		x.Index = r.expr(x.Index)
		return x
	case *ast.IndexListExpr:
		x.X = r.expr(x.X)
		for i := range x.Indices {
			x.Indices[i] = r.expr(x.Indices[i])
		}
		return x
	case *ast.SliceExpr:
		x.X = r.expr(x.X)
		x.Low, x.High, x.Max = r.expr(x.Low), r.expr(x.High), r.expr(x.Max)
		return x
	case *ast.TypeAssertExpr:
		x.X = r.expr(x.X)
		x.Type = r.expr(x.Type)
		return x
	case *ast.ArrayType:
		x.Len = r.expr(x.Len)
		x.Elt = r.expr(x.Elt)
		return x
	case *ast.MapType:
		x.Key = r.expr(x.Key)
		x.Value = r.expr(x.Value)
		return x
	case *ast.StructType:
		r.fields(x.Fields)
		return x
	case *ast.InterfaceType:
		r.fields(x.Methods)
		return x
	case *ast.Ellipsis:
		x.Elt = r.expr(x.Elt)
		return x
	}
	return e
}

func (r *rewriter) fields(fl *ast.FieldList) {
	if fl == nil {
		return
	}
	for _, f := range fl.List {
		f.Type = r.expr(f.Type)
	}
}

func (r *rewriter) yield(n ast.Node) ast.Stmt {
	r.used["vsched"] = true
	label := fmt.Sprintf("%s:%d", r.file, r.fset.Position(n.Pos()).Line)
	return &ast.ExprStmt{X: &ast.CallExpr{Fun: sel("vsched", "Yield"), Args: []ast.Expr{&ast.BasicLit{Kind: token.STRING, Value: strconv.Quote(label)}}}}
}

func (r *rewriter) list(in []ast.Stmt) []ast.Stmt {
	var out []ast.Stmt
	for _, s := range in {
		y := r.yield(s)
		ns := r.stmt(s)
		if !r.funcLevel {
			out = append(out, y)
		}
		out = append(out, ns...)
	}
	return out
}

func (r *rewriter) block(b *ast.BlockStmt) {
	if b != nil {
		b.List = r.list(b.List)
	}
}

// stmt rewrites one statement (may expand to several).
func (r *rewriter) stmt(s ast.Stmt) []ast.Stmt {
	switch x := s.(type) {
	case *ast.GoStmt:
		r.used["vsched"] = true
		call := x.Call
		call.Fun = r.expr(call.Fun)
		var pre []ast.Stmt
		for i, a := range call.Args {
			r.tmp++
			name := fmt.Sprintf("verifArg%d", r.tmp)
			pre = append(pre, &ast.AssignStmt{Lhs: []ast.Expr{ast.NewIdent(name)}, Tok: token.DEFINE, Rhs: []ast.Expr{r.expr(a)}})
			call.Args[i] = ast.NewIdent(name)
		}
		var fn ast.Expr
		if fl, ok := call.Fun.(*ast.FuncLit); ok && len(call.Args) == 0 {
			fn = fl
		} else {
			fn = &ast.FuncLit{Type: &ast.FuncType{Params: &ast.FieldList{}}, Body: &ast.BlockStmt{List: []ast.Stmt{&ast.ExprStmt{X: call}}}}
		}
		starter := "Go"
		if r.inInit {
			// a goroutine started from init() lives as long as the process: it becomes a daemon thread
			// that every execution starts afresh
			starter = "RegisterDaemon"
		}
		goCall := &ast.ExprStmt{X: &ast.CallExpr{Fun: sel("vsched", starter), Args: []ast.Expr{fn}}}
		if len(pre) == 0 {
			return []ast.Stmt{goCall}
		}
		return []ast.Stmt{&ast.BlockStmt{List: append(pre, goCall)}}
	case *ast.SendStmt:
		return []ast.Stmt{&ast.ExprStmt{X: &ast.CallExpr{Fun: &ast.SelectorExpr{X: r.expr(x.Chan), Sel: ast.NewIdent("Send")}, Args: []ast.Expr{r.expr(x.Value)}}}}
	case *ast.SelectStmt:
		return r.selectStmt(x)
	case *ast.AssignStmt:
		if len(x.Lhs) == 2 && len(x.Rhs) == 1 {
			if u, ok := x.Rhs[0].(*ast.UnaryExpr); ok && u.Op == token.ARROW {
				x.Rhs[0] = &ast.CallExpr{Fun: &ast.SelectorExpr{X: r.expr(u.X), Sel: ast.NewIdent("Recv2")}}
				return []ast.Stmt{x}
			}
		}
		for i := range x.Lhs {
			x.Lhs[i] = r.expr(x.Lhs[i])
		}
		for i := range x.Rhs {
			x.Rhs[i] = r.expr(x.Rhs[i])
		}
	case *ast.ExprStmt:
		x.X = r.expr(x.X)
	case *ast.DeclStmt:
		if gd, ok := x.Decl.(*ast.GenDecl); ok {
			r.genDecl(gd)
		}
	case *ast.ReturnStmt:
		for i := range x.Results {
			x.Results[i] = r.expr(x.Results[i])
		}
	case *ast.IfStmt:
		if x.Init != nil {
			x.Init = r.stmt(x.Init)[0]
		}
		x.Cond = r.expr(x.Cond)
		r.block(x.Body)
		if x.Else != nil {
			x.Else = r.stmt(x.Else)[0]
		}
	case *ast.ForStmt:
		if x.Init != nil {
			x.Init = r.stmt(x.Init)[0]
		}
		x.Cond = r.expr(x.Cond)
		if x.Post != nil {
			x.Post = r.stmt(x.Post)[0]
		}
		r.block(x.Body)
	case *ast.RangeStmt:
		// a range with two iteration variables is never a channel range
		if !(x.Key != nil && x.Value != nil) && isChanExpr(x.X) {
			// for v := range ch  ==>  for { v, ok := ch.Recv2(); if !ok { break }; ... }
			x.X = r.expr(x.X)
			r.block(x.Body)
			r.tmp++
			ok := ast.NewIdent(fmt.Sprintf("verifOk%d", r.tmp))
			recv := &ast.CallExpr{Fun: &ast.SelectorExpr{X: x.X, Sel: ast.NewIdent("Recv2")}}
			brk := &ast.IfStmt{Cond: &ast.UnaryExpr{Op: token.NOT, X: ok}, Body: &ast.BlockStmt{List: []ast.Stmt{&ast.BranchStmt{Tok: token.BREAK}}}}
			var head []ast.Stmt
			switch {
			case x.Key == nil:
				head = []ast.Stmt{&ast.AssignStmt{Lhs: []ast.Expr{ast.NewIdent("_"), ok}, Tok: token.DEFINE, Rhs: []ast.Expr{recv}}, brk}
			case x.Tok == token.DEFINE:
				head = []ast.Stmt{&ast.AssignStmt{Lhs: []ast.Expr{x.Key, ok}, Tok: token.DEFINE, Rhs: []ast.Expr{recv}}, brk}
			default:
				v := ast.NewIdent(fmt.Sprintf("verifV%d", r.tmp))
				head = []ast.Stmt{&ast.AssignStmt{Lhs: []ast.Expr{v, ok}, Tok: token.DEFINE, Rhs: []ast.Expr{recv}}, brk, &ast.AssignStmt{Lhs: []ast.Expr{x.Key}, Tok: token.ASSIGN, Rhs: []ast.Expr{v}}}
			}
			return []ast.Stmt{&ast.ForStmt{Body: &ast.BlockStmt{List: append(head, x.Body.List...)}}}
		}
		x.X = r.expr(x.X)
		r.block(x.Body)
	case *ast.BlockStmt:
		r.block(x)
	case *ast.SwitchStmt:
		if x.Init != nil {
			x.Init = r.stmt(x.Init)[0]
		}
		x.Tag = r.expr(x.Tag)
		for _, c := range x.Body.List {
			cc := c.(*ast.CaseClause)
			for i := range cc.List {
				cc.List[i] = r.expr(cc.List[i])
			}
			cc.Body = r.list(cc.Body)
		}
	case *ast.TypeSwitchStmt:
		if x.Init != nil {
			x.Init = r.stmt(x.Init)[0]
		}
		x.Assign = r.stmt(x.Assign)[0]
		for _, c := range x.Body.List {
			cc := c.(*ast.CaseClause)
			for i := range cc.List {
				cc.List[i] = r.expr(cc.List[i])
			}
			cc.Body = r.list(cc.Body)
		}
	case *ast.DeferStmt:
		x.Call = r.expr(x.Call).(*ast.CallExpr)
	case *ast.LabeledStmt:
		ns := r.stmt(x.Stmt)
		x.Stmt = ns[0]
		return append([]ast.Stmt{x}, ns[1:]...)
	case *ast.IncDecStmt:
		x.X = r.expr(x.X)
	}
	return []ast.Stmt{s}
}

// selectStmt rewrites a select statement into vsched.Select over case objects.
func (r *rewriter) selectStmt(x *ast.SelectStmt) []ast.Stmt {
	r.used["vsched"] = true
	var pre []ast.Stmt
	var args []ast.Expr
	hasDefault := false
	sw := &ast.SwitchStmt{Body: &ast.BlockStmt{}}
	n := 0
	for _, c := range x.Body.List {
		cc := c.(*ast.CommClause)
		if cc.Comm == nil {
			hasDefault = true
			sw.Body.List = append(sw.Body.List, &ast.CaseClause{Body: r.list(cc.Body)})
			continue
		}
		r.tmp++
		name := fmt.Sprintf("verifSel%d", r.tmp)
		var bind []ast.Stmt
		switch cm := cc.Comm.(type) {
		case *ast.SendStmt:
			pre = append(pre, &ast.AssignStmt{Lhs: []ast.Expr{ast.NewIdent(name)}, Tok: token.DEFINE, Rhs: []ast.Expr{&ast.CallExpr{Fun: sel("vsched", "SendCase"), Args: []ast.Expr{r.expr(cm.Chan), r.expr(cm.Value)}}}})
		case *ast.ExprStmt:
			u, ok := cm.X.(*ast.UnaryExpr)
			if !ok || u.Op != token.ARROW {
				r.fail(cm, "select case")
				return nil
			}
			pre = append(pre, &ast.AssignStmt{Lhs: []ast.Expr{ast.NewIdent(name)}, Tok: token.DEFINE, Rhs: []ast.Expr{&ast.CallExpr{Fun: sel("vsched", "RecvCase"), Args: []ast.Expr{r.expr(u.X)}}}})
		case *ast.AssignStmt:
			u, ok := cm.Rhs[0].(*ast.UnaryExpr)
			if !ok || u.Op != token.ARROW || len(cm.Rhs) != 1 {
				r.fail(cm, "select case")
				return nil
			}
			pre = append(pre, &ast.AssignStmt{Lhs: []ast.Expr{ast.NewIdent(name)}, Tok: token.DEFINE, Rhs: []ast.Expr{&ast.CallExpr{Fun: sel("vsched", "RecvCase"), Args: []ast.Expr{r.expr(u.X)}}}})
			rhs := []ast.Expr{&ast.SelectorExpr{X: ast.NewIdent(name), Sel: ast.NewIdent("Val")}}
			if len(cm.Lhs) == 2 {
				rhs = append(rhs, &ast.SelectorExpr{X: ast.NewIdent(name), Sel: ast.NewIdent("Ok")})
			}
			bind = append(bind, &ast.AssignStmt{Lhs: cm.Lhs, Tok: cm.Tok, Rhs: rhs})
			if cm.Tok == token.DEFINE {
				// keep the compiler quiet if the body does not use the variables
				for _, l := range cm.Lhs {
					if id, ok := l.(*ast.Ident); ok && id.Name != "_" {
						bind = append(bind, &ast.AssignStmt{Lhs: []ast.Expr{ast.NewIdent("_")}, Tok: token.ASSIGN, Rhs: []ast.Expr{ast.NewIdent(id.Name)}})
					}
				}
			}
		default:
			r.fail(cc, "select case")
			return nil
		}
		args = append(args, ast.NewIdent(name))
		sw.Body.List = append(sw.Body.List, &ast.CaseClause{List: []ast.Expr{&ast.BasicLit{Kind: token.INT, Value: strconv.Itoa(n)}}, Body: append(bind, r.list(cc.Body)...)})
		n++
	}
	hd := "false"
	if hasDefault {
		hd = "true"
	}
	sw.Tag = &ast.CallExpr{Fun: sel("vsched", "Select"), Args: append([]ast.Expr{ast.NewIdent(hd)}, args...)}
	return []ast.Stmt{&ast.BlockStmt{List: append(pre, sw)}}
}

func (r *rewriter) genDecl(gd *ast.GenDecl) {
	for _, sp := range gd.Specs {
		switch s := sp.(type) {
		case *ast.ValueSpec:
			s.Type = r.expr(s.Type)
			for i := range s.Values {
				s.Values[i] = r.expr(s.Values[i])
			}
		case *ast.TypeSpec:
			s.Type = r.expr(s.Type)
		}
	}
}

// pureInit: the expression can be evaluated again without side effects (no calls except builtins,
// conversions to composite types and the channel constructor the rewriter itself introduced).
func pureInit(e ast.Expr) bool {
	pure := true
	ast.Inspect(e, func(n ast.Node) bool {
		switch x := n.(type) {
		case *ast.FuncLit:
			return false // a function value; its body runs later
		case *ast.CallExpr:
			switch f := x.Fun.(type) {
			case *ast.Ident:
				switch f.Name {
				case "make", "new", "len", "cap", "append", "string", "byte", "rune", "int", "int32", "int64", "uint", "uint8", "uint32", "uint64", "float64", "bool":
				default:
					pure = false
				}
			case *ast.ArrayType, *ast.MapType, *ast.StarExpr, *ast.ParenExpr:
			case *ast.IndexExpr:
				if !isPkgSel(f.X, "vsched", "NewChan") {
					pure = false
				}
			default:
				pure = false
			}
		}
		return pure
	})
	return pure
}

// resetStmts builds the assignments that put the file's package-level variables back to their initial
// values. Variables with an impure initialiser keep their state (an empty statement list is still
// returned non-nil, so that the runtime knows the file has package-level state).
func resetStmts(f *ast.File) []ast.Stmt {
	var out []ast.Stmt
	found := false
	for _, d := range f.Decls {
		gd, ok := d.(*ast.GenDecl)
		if !ok || gd.Tok != token.VAR {
			continue
		}
		for _, sp := range gd.Specs {
			vs := sp.(*ast.ValueSpec)
			for i, nm := range vs.Names {
				if nm.Name == "_" {
					continue
				}
				found = true
				switch {
				case len(vs.Values) == 0 && vs.Type != nil:
					out = append(out, &ast.AssignStmt{Lhs: []ast.Expr{ast.NewIdent(nm.Name)}, Tok: token.ASSIGN, Rhs: []ast.Expr{&ast.StarExpr{X: &ast.CallExpr{Fun: ast.NewIdent("new"), Args: []ast.Expr{vs.Type}}}}})
				case len(vs.Values) == len(vs.Names) && pureInit(vs.Values[i]):
					var rhs ast.Expr = vs.Values[i]
					if vs.Type != nil {
						rhs = &ast.CallExpr{Fun: &ast.ParenExpr{X: vs.Type}, Args: []ast.Expr{rhs}}
					}
					out = append(out, &ast.AssignStmt{Lhs: []ast.Expr{ast.NewIdent(nm.Name)}, Tok: token.ASSIGN, Rhs: []ast.Expr{rhs}})
				}
			}
		}
	}
	if !found {
		return nil
	}
	if out == nil {
		out = []ast.Stmt{}
	}
	return out
}

func usesPkg(f *ast.File, name string) bool {
	found := false
	ast.Inspect(f, func(n ast.Node) bool {
		if s, ok := n.(*ast.SelectorExpr); ok {
			if id, ok := s.X.(*ast.Ident); ok && id.Name == name && id.Obj == nil {
				found = true
			}
		}
		return !found
	})
	return found
}

func instrumentFile(path, rel string, httpServer, funcLevel bool) ([]byte, error) {
	fset := token.NewFileSet()
	src, err := os.ReadFile(path)
	if err != nil {
		return nil, err
	}
	f, err := parser.ParseFile(fset, path, src, parser.SkipObjectResolution)
	if err != nil {
		return nil, err
	}
	r := &rewriter{fset: fset, file: rel, used: map[string]bool{}, httpServer: httpServer, funcLevel: funcLevel}
	for _, d := range f.Decls {
		switch x := d.(type) {
		case *ast.FuncDecl:
			collectLocalKinds(x)
			r.fields(x.Recv)
			x.Type = r.expr(x.Type).(*ast.FuncType)
			r.inInit = x.Recv == nil && x.Name.Name == "init"
			r.block(x.Body)
			r.inInit = false
			if funcLevel && x.Body != nil {
				// function-level granularity: one scheduling point on entry of every function
				x.Body.List = append([]ast.Stmt{r.yield(x)}, x.Body.List...)
			}
		case *ast.GenDecl:
			if x.Tok != token.IMPORT {
				r.genDecl(x)
			}
		}
	}
	if r.err != nil {
		return nil, r.err
	}
	// package-level variables: every execution of the explorer must start from the process-initial
	// state, so their (side-effect free) initialisers are re-evaluated by a registered reset
	if rs := resetStmts(f); rs != nil {
		r.used["vsched"] = true
		reg := &ast.ExprStmt{X: &ast.CallExpr{Fun: sel("vsched", "RegisterReset"), Args: []ast.Expr{&ast.FuncLit{Type: &ast.FuncType{Params: &ast.FieldList{}}, Body: &ast.BlockStmt{List: rs}}}}}
		f.Decls = append(f.Decls, &ast.FuncDecl{Name: ast.NewIdent("init"), Type: &ast.FuncType{Params: &ast.FieldList{}}, Body: &ast.BlockStmt{List: []ast.Stmt{reg}}})
	}
	// imports: add the runtime packages in use, drop std imports that became unused
	var specs []ast.Spec
	for _, p := range []string{"vsched", "vsync", "vhttp"} {
		if r.used[p] {
			specs = append(specs, &ast.ImportSpec{Path: &ast.BasicLit{Kind: token.STRING, Value: strconv.Quote(rtPath + p)}})
		}
	}
	var decls []ast.Decl
	for _, d := range f.Decls {
		gd, ok := d.(*ast.GenDecl)
		if !ok || gd.Tok != token.IMPORT {
			decls = append(decls, d)
			continue
		}
		var keep []ast.Spec
		for _, sp := range gd.Specs {
			is := sp.(*ast.ImportSpec)
			p, _ := strconv.Unquote(is.Path.Value)
			name := filepath.Base(p)
			if is.Name != nil {
				name = is.Name.Name
			}
			if (p == "sync" || p == "time" || p == "net/http") && is.Name == nil && !usesPkg(f, name) {
				continue
			}
			keep = append(keep, sp)
		}
		gd.Specs = keep
		if len(keep) > 0 {
			decls = append(decls, gd)
		}
	}
	if len(specs) > 0 {
		decls = append([]ast.Decl{&ast.GenDecl{Tok: token.IMPORT, Lparen: 1, Specs: specs}}, decls...)
	}
	f.Decls = decls
	f.Comments = nil
	var buf bytes.Buffer
	for _, line := range strings.Split(string(src), "\n") {
		if strings.HasPrefix(line, "//go:build") {
			buf.WriteString(line + "\n\n")
		}
		if strings.HasPrefix(line, "package ") {
			break
		}
	}
	if err := (&printer.Config{Mode: printer.UseSpaces | printer.TabIndent, Tabwidth: 8}).Fprint(&buf, token.NewFileSet(), f); err != nil {
		return nil, err
	}
	return buf.Bytes(), nil
}

func main() {
	repo := flag.String("repo", "/repo", "repository root")
	rt := flag.String("rt", "", "directory holding vsched/ vsync/ vhttp/ sources")
	out := flag.String("out", "", "output directory")
	fl := flag.String("funclevel", "", "comma-separated files that get a scheduling point per function entry instead of per statement")
	flag.Parse()
	funcLevel := map[string]bool{}
	for _, f := range strings.Split(*fl, ",") {
		funcLevel[f] = true
	}
	os.MkdirAll(*out, 0o755)
	// arguments are files (instrumented as asked; an unsupported construct there is fatal: nothing is
	// explored) or directories: every other non-test .go file of such a directory is instrumented too, at
	// function-entry granularity, so that goroutines, channels, locks and package-level state introduced in
	// NEW files of a package are under the scheduler as well; a file found that way which cannot be
	// instrumented is left as it is (with a note)
	var rels []string
	extra := map[string]bool{}
	listed := map[string]bool{}
	for _, a := range flag.Args() {
		if st, err := os.Stat(filepath.Join(*repo, a)); err == nil && !st.IsDir() {
			listed[filepath.Clean(a)] = true
		}
	}
	for _, a := range flag.Args() {
		st, err := os.Stat(filepath.Join(*repo, a))
		if err != nil {
			fmt.Fprintln(os.Stderr, "instrument:", err)
			os.Exit(3)
		}
		if !st.IsDir() {
			rels = append(rels, filepath.Clean(a))
			continue
		}
		ents, _ := os.ReadDir(filepath.Join(*repo, a))
		for _, e := range ents {
			n := e.Name()
			rel := filepath.Join(a, n)
			if e.IsDir() || !strings.HasSuffix(n, ".go") || strings.HasSuffix(n, "_test.go") || listed[rel] || extra[rel] {
				continue
			}
			if head, err := os.ReadFile(filepath.Join(*repo, rel)); err == nil && bytes.Contains(head[:min(len(head), 400)], []byte("//go:build")) {
				continue // build-constrained files are left alone
			}
			extra[rel] = true
			funcLevel[rel] = true
			rels = append(rels, rel)
		}
	}
	for _, rel := range rels {
		if f, err := parser.ParseFile(token.NewFileSet(), filepath.Join(*repo, rel), nil, parser.SkipObjectResolution); err == nil {
			collectChanNames(f)
		}
	}
	overlay := map[string]string{}
	for i, rel := range rels {
		src := filepath.Join(*repo, rel)
		data, err := instrumentFile(src, rel, strings.HasPrefix(rel, "server/"), funcLevel[rel])
		if err != nil {
			if extra[rel] {
				fmt.Fprintln(os.Stderr, "instrument: note:", rel, "left uninstrumented:", err)
				continue
			}
			fmt.Fprintln(os.Stderr, "instrument:", err)
			os.Exit(3)
		}
		dst := filepath.Join(*out, fmt.Sprintf("f%d_%s", i, filepath.Base(rel)))
		if err := os.WriteFile(dst, data, 0o644); err != nil {
			fmt.Fprintln(os.Stderr, err)
			os.Exit(2)
		}
		overlay[src] = dst
	}
	for _, p := range []string{"vsched", "vsync", "vhttp"} {
		files, _ := filepath.Glob(filepath.Join(*rt, p, "*.go"))
		asm, _ := filepath.Glob(filepath.Join(*rt, p, "*.s"))
		files = append(files, asm...)
		for _, f := range files {
			overlay[filepath.Join(*repo, "verifrt", p, filepath.Base(f))] = f
		}
	}
	js, _ := json.MarshalIndent(map[string]any{"Replace": overlay}, "", " ")
	if err := os.WriteFile(filepath.Join(*out, "overlay.json"), js, 0o644); err != nil {
		fmt.Fprintln(os.Stderr, err)
		os.Exit(2)
	}
}
