// Package gid returns an identity for the calling goroutine (the address of its
// descriptor), valid while the goroutine is alive. It lives in the harness module
// because `go build -overlay` cannot assemble files of a virtual package directory.
package gid

// Get returns the address of the calling goroutine's descriptor.
func Get() uintptr { return getg() }

func getg() uintptr
