//go:build verif

// Package vsched is a cooperative scheduler for systematic interleaving
// exploration. Instrumented code calls Yield before every statement and uses
// Chan/Go (and vsync, vhttp) instead of the runtime's primitives; exactly one
// registered thread runs at a time, every hand-off is an explicit, recorded and
// replayable choice.
package vsched

import (
	"fmt"
	"hash/fnv"
	"sort"
	"strings"
	"sync"
)

type tstate int

const (
	runnable tstate = iota
	blocked
	done
)

type Thread struct {
	Name     string
	s        *Sched
	state    tstate
	wake     chan struct{}
	nspawn   int
	nameHash uint64
	trace    uint64 // digest of the thread's local history (labels passed, results of blocking/shim operations)
	steps    int
	waiting  string
	daemon   bool
	detached bool // started by a `go` statement of the code under check (not by the harness or a shim)
}

type abortT struct{}

// Point is one recorded scheduling decision.
type Point struct {
	Enabled      []string // canonical order: running thread first (if still enabled), then ascending names
	Chosen       int
	Running      string
	RunningStill bool // the running thread was still enabled (choosing another one is a preemption)
	Label        string
	Key          uint64 // state key before the choice (0 if keys are off)
	Frozen       bool   // recorded while exploration was switched off: no alternatives are explored here
}

type Failure struct {
	Kind string // deadlock | panic | invariant | horizon | replay-divergence
	Msg  string
}

type Sched struct {
	threads  map[string]*Thread
	order    []*Thread
	cur      *Thread
	Points   []Point
	prefix   []int
	Fail     *Failure
	aborted  bool
	wg       sync.WaitGroup
	finished chan struct{}
	MaxSteps int
	steps    int
	Keys     bool
	Fine     bool
	stateFns []func() string
	// Observations written by harness code (only from registered threads).
	Obs         []string
	Switches    int
	frozen      bool
	startWaiter *Thread                       // main, while the daemons of instrumented packages run to their first wait
	onPoint     func(s *Sched, p *Point) bool // return false to cut the execution here (state already explored)
	Cut         bool
}

var goids sync.Map // goroutine id -> *Thread

func goid() uintptr { return getg() }

// Current returns the calling registered thread, or nil.
func Current() *Thread {
	if v, ok := goids.Load(goid()); ok {
		return v.(*Thread)
	}
	return nil
}

func mix(h uint64, s string) uint64 {
	f := fnv.New64a()
	var b [8]byte
	for i := 0; i < 8; i++ {
		b[i] = byte(h >> (8 * uint(i)))
	}
	f.Write(b[:])
	f.Write([]byte(s))
	return f.Sum64()
}

// Note folds an observation into the calling thread's local history (for state keys).
func (t *Thread) Note(s string) { t.trace = mix(t.trace, s) }

func (s *Sched) RegisterState(f func() string) { s.stateFns = append(s.stateFns, f) }

func mix64(a, b uint64) uint64 {
	x := a ^ (b + 0x9e3779b97f4a7c15 + (a << 6) + (a >> 2))
	x ^= x >> 33
	x *= 0xff51afd7ed558ccd
	x ^= x >> 33
	return x
}

func (s *Sched) stateKey() uint64 {
	var sum uint64
	for _, t := range s.order {
		h := mix64(t.nameHash, uint64(t.state))
		h = mix64(h, t.trace)
		if t.waiting != "" {
			h = mix(h, t.waiting)
		}
		sum += h // commutative: independent of creation order
	}
	h := mix64(sum, uint64(len(s.order)))
	for _, f := range s.stateFns {
		h = mix(h, f())
	}
	return h
}

func (s *Sched) enabled(running *Thread) ([]*Thread, bool) {
	var en []*Thread
	still := running != nil && running.state == runnable
	for _, t := range s.order {
		if t.state == runnable && t != running {
			en = append(en, t)
		}
	}
	sort.Slice(en, func(i, j int) bool { return en[i].Name < en[j].Name })
	if still {
		en = append([]*Thread{running}, en...)
	}
	return en, still
}

func (s *Sched) fail(kind, msg string) {
	if s.Fail == nil {
		s.Fail = &Failure{kind, msg}
	}
}

// onlyDaemonsLeft: every thread that is not finished is a daemon (a goroutine the package under check
// starts in init() and that lives as long as the process): waiting for work for ever is its normal state.
func (s *Sched) onlyDaemonsLeft() bool {
	for _, x := range s.order {
		if x.state != done && !x.daemon && !x.detached {
			return false
		}
	}
	return true
}

// Leaked counts, over all executions of the process, goroutines of the code under check that were still
// blocked when every harness thread (main, clients, connections) had finished: a goroutine leak, which a
// Go process ends by exiting; not a deadlock of anything the properties talk about.
var Leaked int64

func (s *Sched) daemonsParked() bool {
	for _, x := range s.order {
		if x.daemon && x.state == runnable {
			return false
		}
	}
	return true
}

// abortAll wakes every parked thread so that it unwinds.
func (s *Sched) abortAll(self *Thread) {
	if s.aborted {
		return
	}
	s.aborted = true
	for _, t := range s.order {
		if t != self && t.state != done {
			select {
			case t.wake <- struct{}{}:
			default:
			}
		}
	}
}

// point is a scheduling point of thread t (which may be runnable, blocked or done).
func (s *Sched) point(t *Thread, label string) {
	if s.aborted {
		panic(abortT{})
	}
	s.steps++
	if s.steps > s.MaxSteps {
		s.fail("horizon", fmt.Sprintf("more than %d steps (livelock or unbounded polling); last label %s", s.MaxSteps, label))
		s.abortAll(t)
		panic(abortT{})
	}
	if t.state == runnable {
		t.trace = mix(t.trace, label)
	}
	en, still := s.enabled(t)
	if len(en) == 0 {
		alive := false
		var who []string
		for _, x := range s.order {
			if x.state == blocked {
				alive = true
				who = append(who, x.Name+" waiting for "+x.waiting)
			}
		}
		if alive && !s.onlyDaemonsLeft() {
			s.fail("deadlock", "no enabled thread: "+strings.Join(who, "; "))
			s.abortAll(t)
			if t.state != done {
				panic(abortT{})
			}
			return
		}
		// everything finished (daemon threads still waiting for work, and goroutines of the code under
		// check that outlive every harness thread, are unwound quietly)
		if alive {
			for _, x := range s.order {
				if x.state == blocked && x.detached && !x.daemon {
					Leaked++
				}
			}
			s.abortAll(t)
		}
		return
	}
	next := en[0]
	if len(en) == 1 && s.Keys && !s.frozen && s.onPoint != nil && len(s.Points) >= len(s.prefix) {
		// no choice here, but the state may already have been explored from another prefix
		p := Point{Running: t.Name, RunningStill: still, Label: label, Key: s.stateKey()}
		if !s.onPoint(s, &p) {
			s.Cut = true
			s.abortAll(t)
			panic(abortT{})
		}
	}
	if len(en) > 1 {
		p := Point{Running: t.Name, RunningStill: still, Label: label, Frozen: s.frozen}
		for _, x := range en {
			p.Enabled = append(p.Enabled, x.Name)
		}
		if s.Keys && !s.frozen {
			p.Key = s.stateKey()
		}
		i := len(s.Points)
		if i < len(s.prefix) {
			p.Chosen = s.prefix[i]
			if p.Chosen >= len(en) {
				s.fail("replay-divergence", fmt.Sprintf("choice %d out of range (%d enabled) at point %d (%s)", p.Chosen, len(en), i, label))
				s.abortAll(t)
				panic(abortT{})
			}
		} else if s.onPoint != nil && !s.frozen && !s.onPoint(s, &p) {
			s.Cut = true
			s.abortAll(t)
			panic(abortT{})
		}
		next = en[p.Chosen]
		s.Points = append(s.Points, p)
	}
	if next == t {
		return
	}
	s.Switches++
	s.cur = next
	next.wake <- struct{}{}
	if t.state == done {
		return
	}
	<-t.wake
	if s.aborted {
		panic(abortT{})
	}
}

// Yield is inserted before every statement of instrumented code. It is a
// scheduling point only in fine mode; in coarse mode only operations on shared
// objects (channels, vsync, vhttp, thread exit) are.
func Yield(label string) {
	t := Current()
	if t == nil || !t.s.Fine {
		return
	}
	t.s.point(t, label)
}

// Point is an unconditional scheduling point (used by the shims before every
// operation on a shared object).
func Sync(label string) {
	t := Current()
	if t == nil {
		return
	}
	t.s.point(t, label)
}

// Sleep: in an asynchronous model a sleep is just a scheduling point.
func Sleep(_ any) { Sync("sleep") }

// Block parks the calling thread until another thread calls Unblock on it; the
// caller re-checks its condition afterwards.
func (t *Thread) Block(why string) {
	t.state = blocked
	t.waiting = why
	if t.daemon && t.s.startWaiter != nil && t.s.daemonsParked() {
		t.s.startWaiter.Unblock()
	}
	t.s.point(t, "block:"+why)
	t.waiting = ""
}

func (t *Thread) Unblock() {
	if t.state == blocked {
		t.state = runnable
	}
}

func (t *Thread) Sched() *Sched { return t.s }

// Go starts a new registered thread (the instrumenter rewrites `go f(x)` to this).
func Go(f func()) {
	parent := Current()
	if parent == nil {
		go f()
		return
	}
	parent.nspawn++
	parent.s.spawn(fmt.Sprintf("%s/%d", parent.Name, parent.nspawn), f).detached = true
}

// GoNamed starts a thread with a fixed name (used by harnesses and shims).
func GoNamed(name string, f func()) {
	parent := Current()
	if parent == nil {
		panic("GoNamed outside a scheduled thread")
	}
	parent.s.spawn(name, f)
}

func (s *Sched) spawn(name string, f func()) *Thread {
	if _, dup := s.threads[name]; dup {
		name = fmt.Sprintf("%s#%d", name, len(s.order))
	}
	t := &Thread{Name: name, s: s, wake: make(chan struct{}, 1), trace: mix(0, name), nameHash: mix(7, name)}
	s.threads[name] = t
	s.order = append(s.order, t)
	s.wg.Add(1)
	go func() {
		id := goid()
		goids.Store(id, t)
		defer s.wg.Done()
		defer goids.Delete(id)
		defer func() {
			r := recover()
			if r != nil {
				if _, ok := r.(abortT); !ok {
					s.fail("panic", fmt.Sprintf("thread %s panicked: %v", t.Name, r))
					t.state = done
					s.abortAll(t)
					return
				}
				t.state = done
				return
			}
			t.state = done
			if t.daemon && s.startWaiter != nil && s.daemonsParked() {
				s.startWaiter.Unblock()
			}
			defer func() { recover() }() // an abort raised while handing off after completion
			s.point(t, "exit")
		}()
		<-t.wake
		if s.aborted {
			panic(abortT{})
		}
		f()
	}()
	return t
}

// Config of one execution.
type Config struct {
	Prefix   []int
	MaxSteps int
	Keys     bool
	Fine     bool
	OnPoint  func(s *Sched, p *Point) bool
}

// Run executes body as thread "main" under the scheduler and returns when every
// thread has finished or the execution was aborted.
// Resets put the package-level variables of instrumented files back to their initial values; they run
// before every execution, so that each execution starts from the process-initial state.
var resets []func()

// Daemons are goroutines that instrumented packages start from init(): they are started again as
// scheduler threads at the beginning of every execution (RegisterDaemon replaces the go statement).
var daemons []func()

func RegisterDaemon(f func()) { daemons = append(daemons, f) }

func RegisterReset(f func()) { resets = append(resets, f) }

// HasSharedState: instrumented code has package-level variables (executions must not run in parallel
// in one process).
func HasSharedState() bool { return len(resets) > 0 || len(daemons) > 0 }

func Run(cfg Config, setup func(s *Sched), body func()) *Sched {
	for _, f := range resets {
		f()
	}
	s := &Sched{threads: map[string]*Thread{}, prefix: cfg.Prefix, MaxSteps: cfg.MaxSteps, Keys: cfg.Keys, Fine: cfg.Fine, onPoint: cfg.OnPoint}
	if s.MaxSteps == 0 {
		s.MaxSteps = 20000
	}
	if setup != nil {
		setup(s)
	}
	run := body
	if len(daemons) > 0 {
		run = func() {
			// start-up of the daemons is not explored: each runs (in name order) until it waits for work
			me := Current()
			prev := s.frozen
			s.frozen = true
			for i, d := range daemons {
				s.spawn(fmt.Sprintf("daemon%d", i), d).daemon = true
			}
			for !s.daemonsParked() {
				s.startWaiter = me
				me.Block("daemons starting")
			}
			s.startWaiter = nil
			s.frozen = prev
			body()
		}
	}
	t := s.spawn("main", run)
	s.cur = t
	t.wake <- struct{}{}
	s.wg.Wait()
	return s
}

// IsAbort reports whether a recovered value is the scheduler's unwinding marker
// (shims that recover handler panics must re-panic it).
func IsAbort(r any) bool { _, ok := r.(abortT); return ok }

// Choose enumerates a data nondeterminism with n alternatives (e.g. which of several
// ready select cases fires): it is recorded as a scheduling decision without
// preemption cost, so the explorer tries every alternative.
func Choose(n int, label string) int {
	t := Current()
	if t == nil || n <= 1 {
		return 0
	}
	s := t.s
	p := Point{Running: t.Name, Label: "choose:" + label, Frozen: s.frozen}
	for i := 0; i < n; i++ {
		p.Enabled = append(p.Enabled, label+"#"+string(rune('0'+i)))
	}
	i := len(s.Points)
	if i < len(s.prefix) {
		p.Chosen = s.prefix[i]
		if p.Chosen >= n {
			s.fail("replay-divergence", "choice out of range at "+label)
			s.abortAll(t)
			panic(abortT{})
		}
	}
	s.Points = append(s.Points, p)
	t.Note(p.Enabled[p.Chosen])
	return p.Chosen
}

// SetExplore switches the exploration of alternatives on or off for the scheduling
// points that follow (harnesses freeze start-up and tear-down, which other checks explore).
func SetExplore(on bool) {
	if t := Current(); t != nil {
		t.s.frozen = !on
	}
}

// Observe appends to the execution's observation log (harness code only).
func Observe(format string, a ...any) {
	t := Current()
	if t == nil {
		return
	}
	msg := fmt.Sprintf(format, a...)
	t.s.Obs = append(t.s.Obs, msg)
	t.Note(msg)
}

// Fail records an invariant violation found by harness code and ends the execution.
func Fail(format string, a ...any) {
	t := Current()
	if t == nil {
		panic(fmt.Sprintf(format, a...))
	}
	t.s.fail("invariant", fmt.Sprintf(format, a...))
	t.s.abortAll(t)
	panic(abortT{})
}
