//go:build verif

package vsched

// Chan models a Go channel under the scheduler (the instrumenter rewrites
// `chan T`, make, <-, close and send statements to it).
type Chan[T any] struct {
	buf    []T
	cap    int
	closed bool
	recvq  []*Thread
	sendq  []*sender[T]
	name   string
}

type sender[T any] struct {
	t    *Thread
	v    T
	done bool
	sel  *selState // non-nil: registered by a blocked select; valid only while !sel.fired
	idx  int
}

// selState is shared by the registrations of one blocked select statement.
type selState struct {
	fired  bool
	chosen int
}

// popSender removes and returns the first live sender (skipping registrations of
// select statements that have already fired on another case).
func (c *Chan[T]) popSender() *sender[T] {
	for len(c.sendq) > 0 {
		s := c.sendq[0]
		c.sendq = c.sendq[1:]
		if s.sel != nil {
			if s.sel.fired {
				continue
			}
			s.sel.fired = true
			s.sel.chosen = s.idx
		}
		return s
	}
	return nil
}

func (c *Chan[T]) hasSender() bool {
	for _, s := range c.sendq {
		if s.sel == nil || !s.sel.fired {
			return true
		}
	}
	return false
}

func NewChan[T any](n ...int) *Chan[T] {
	c := &Chan[T]{}
	if len(n) > 0 {
		c.cap = n[0]
	}
	return c
}

func wakeAll(q *[]*Thread) {
	for _, t := range *q {
		t.Unblock()
	}
	*q = nil
}

func (c *Chan[T]) Close() {
	Sync("close")
	if c.closed {
		panic("close of closed channel")
	}
	c.closed = true
	wakeAll(&c.recvq)
	for _, s := range c.sendq {
		s.t.Unblock()
	}
}

func (c *Chan[T]) Recv() T {
	v, _ := c.Recv2()
	return v
}

func (c *Chan[T]) Recv2() (T, bool) {
	t := Current()
	var zero T
	if t == nil {
		panic("vsched.Chan used outside a scheduled thread")
	}
	Sync("recv")
	for {
		if len(c.buf) > 0 {
			v := c.buf[0]
			c.buf = c.buf[1:]
			// a blocked sender can now move its value into the buffer
			if s := c.popSender(); s != nil {
				c.buf = append(c.buf, s.v)
				s.done = true
				s.t.Unblock()
			}
			t.Note("recv:v")
			return v, true
		}
		if s := c.popSender(); s != nil {
			s.done = true
			s.t.Unblock()
			t.Note("recv:v")
			return s.v, true
		}
		if c.closed {
			t.Note("recv:closed")
			return zero, false
		}
		c.recvq = append(c.recvq, t)
		t.Block("channel receive")
	}
}

func (c *Chan[T]) Send(v T) {
	t := Current()
	if t == nil {
		panic("vsched.Chan used outside a scheduled thread")
	}
	Sync("send")
	if c.closed {
		panic("send on closed channel")
	}
	if len(c.buf) < c.cap {
		c.buf = append(c.buf, v)
		wakeAll(&c.recvq)
		return
	}
	s := &sender[T]{t: t, v: v}
	c.sendq = append(c.sendq, s)
	wakeAll(&c.recvq)
	for !s.done {
		if c.closed {
			panic("send on closed channel")
		}
		t.Block("channel send")
	}
}

func (c *Chan[T]) Len() int { return len(c.buf) }
