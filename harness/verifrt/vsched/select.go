//go:build verif

package vsched

// Select support. The instrumenter rewrites
//
//	select { case v, ok := <-a: A; case b <- x: B; default: D }
//
// into
//
//	{ c0 := vsched.RecvCase(a); c1 := vsched.SendCase(b, x)
//	  switch vsched.Select(true, c0, c1) { case 0: v, ok := c0.Val, c0.Ok; A; case 1: B; default: D } }
//
// Among several ready cases Go chooses at random; the choice is a recorded decision
// (vsched.Choose), so the explorer enumerates every alternative.
type SelCase interface {
	ready() bool
	fire(t *Thread)
	register(t *Thread, st *selState, idx int)
}

type RecvCaseT[T any] struct {
	c   *Chan[T]
	Val T
	Ok  bool
}

func RecvCase[T any](c *Chan[T]) *RecvCaseT[T] { return &RecvCaseT[T]{c: c} }

func (r *RecvCaseT[T]) ready() bool {
	return r.c != nil && (len(r.c.buf) > 0 || r.c.hasSender() || r.c.closed)
}

func (r *RecvCaseT[T]) fire(t *Thread) {
	c := r.c
	switch {
	case len(c.buf) > 0:
		r.Val, r.Ok = c.buf[0], true
		c.buf = c.buf[1:]
		if s := c.popSender(); s != nil {
			c.buf = append(c.buf, s.v)
			s.done = true
			s.t.Unblock()
		}
	case c.hasSender():
		s := c.popSender()
		s.done = true
		s.t.Unblock()
		r.Val, r.Ok = s.v, true
	default:
		var zero T
		r.Val, r.Ok = zero, false
	}
	if r.Ok {
		t.Note("select-recv:v")
	} else {
		t.Note("select-recv:closed")
	}
}

func (r *RecvCaseT[T]) register(t *Thread, _ *selState, _ int) {
	if r.c != nil {
		r.c.recvq = append(r.c.recvq, t)
	}
}

type SendCaseT[T any] struct {
	c  *Chan[T]
	v  T
	sd *sender[T]
}

func SendCase[T any](c *Chan[T], v T) *SendCaseT[T] { return &SendCaseT[T]{c: c, v: v} }

func (s *SendCaseT[T]) ready() bool {
	if s.c == nil {
		return false
	}
	if s.c.closed {
		return true // firing panics, as in Go
	}
	return len(s.c.buf) < s.c.cap || len(s.c.recvq) > 0 && s.c.cap == 0 && s.c.recvWaiting()
}

// recvWaiting: a receiver blocked in a plain receive (or select) is parked on recvq.
func (c *Chan[T]) recvWaiting() bool {
	for _, t := range c.recvq {
		if t.state == blocked {
			return true
		}
	}
	return false
}

func (s *SendCaseT[T]) fire(t *Thread) {
	c := s.c
	if c.closed {
		panic("send on closed channel")
	}
	if len(c.buf) < c.cap {
		c.buf = append(c.buf, s.v)
		wakeAll(&c.recvq)
		return
	}
	// unbuffered with a parked receiver: hand the value over through the send queue
	// as an already completed sender, then wake the receivers
	c.sendq = append([]*sender[T]{{t: t, v: s.v}}, c.sendq...)
	wakeAll(&c.recvq)
	t.Note("select-send")
}

func (s *SendCaseT[T]) register(t *Thread, st *selState, idx int) {
	if s.c == nil {
		return
	}
	s.sd = &sender[T]{t: t, v: s.v, sel: st, idx: idx}
	s.c.sendq = append(s.c.sendq, s.sd)
	wakeAll(&s.c.recvq)
}

// Select returns the index of the case that fired, or -1 for default.
func Select(hasDefault bool, cases ...SelCase) int {
	t := Current()
	if t == nil {
		panic("vsched.Select used outside a scheduled thread")
	}
	Sync("select")
	for {
		var ready []int
		for i, c := range cases {
			if c.ready() {
				ready = append(ready, i)
			}
		}
		if len(ready) > 0 {
			// Go picks one of the ready cases at random: every alternative is explored
			i := ready[Choose(len(ready), "select")]
			cases[i].fire(t)
			return i
		}
		if hasDefault {
			t.Note("select:default")
			return -1
		}
		st := &selState{}
		for i, c := range cases {
			c.register(t, st, i)
		}
		t.Block("select")
		if st.fired {
			// a receiver took the value of one of our send registrations
			t.Note("select-send")
			return st.chosen
		}
		st.fired = true // invalidate the remaining send registrations before trying again
	}
}
