//go:build verif

package vsched

import (
	"fmt"
	"strings"
	"sync"
	"sync/atomic"
	"time"
)

// Explorer: stateless depth-first exploration of schedules. Every execution
// replays a choice prefix and then takes choice 0 (keep running the current
// thread, else the lowest name). Alternatives at later points are explored
// recursively, bounded by preemptions and/or pruned by state keys.
type Explorer struct {
	Bound     int  // preemption bound; <0: unbounded
	Fine      bool // statement-level scheduling points
	UseKeys   bool // prune executions that reach an already explored state
	CountOnly bool // compute state keys to count distinct states, never prune
	MaxSteps  int
	MaxExecs  int64
	Deadline  time.Time
	Workers   int
	NewRun    func() (setup func(*Sched), body func(), check func(*Sched) *Failure)
	OnFailure func(prefix []int, s *Sched, f *Failure) // called once per failing execution
	AfterRun  func(s *Sched)                           // always called when an execution has ended
	Filter    func(p *Point, alt int) bool             // if set: only the alternatives it accepts are explored
	// MaxChoiceDev > 0 bounds the number of non-default answers at Choose points (environment
	// nondeterminism: a deadline passing, a select picking another ready case) along one execution
	MaxChoiceDev int

	Execs, Cut, States, Transitions int64
	SlowExecs, SlowCut              int64
	Capped                          bool
	MaxPoints                       int64
	visited                         sync.Map // state key -> smallest preemption count seen
	outcomes                        sync.Map
	stop                            atomic.Bool
}

// work is one unexplored alternative: the choices of the execution it branches from (shared, never
// modified) up to cut, then alt. The prefix is materialised only when the item is taken.
type work struct {
	base []int
	cut  int // -1: the empty prefix
	alt  int
	pre  int // preemptions spent in prefix
}

func (w work) prefix() []int {
	if w.cut < 0 {
		return nil
	}
	np := make([]int, w.cut+1)
	copy(np, w.base[:w.cut])
	np[w.cut] = w.alt
	return np
}

func (e *Explorer) exec(prefix []int, prePreempt int) (*Sched, []work) {
	setup, body, check := e.NewRun()
	var next []work
	cfg := Config{Prefix: prefix, MaxSteps: e.MaxSteps, Keys: e.UseKeys || e.CountOnly, Fine: e.Fine}
	pre := 0 // preemptions so far along this execution (recomputed from the points)
	if e.CountOnly && !e.UseKeys {
		cfg.OnPoint = func(s *Sched, p *Point) bool {
			if _, seen := e.visited.LoadOrStore(p.Key, 0); !seen {
				atomic.AddInt64(&e.States, 1)
			}
			return true
		}
	}
	if e.UseKeys {
		cfg.OnPoint = func(s *Sched, p *Point) bool {
			// called for points beyond the prefix, before the default choice is taken
			cost := 0
			if e.Bound >= 0 {
				cost = preemptions(s.Points)
			}
			if old, ok := e.visited.Load(p.Key); ok && old.(int) <= cost {
				return false
			}
			e.visited.Store(p.Key, cost)
			atomic.AddInt64(&e.States, 1)
			return true
		}
	}
	t0 := time.Now()
	s := Run(cfg, setup, body)
	if dt := time.Since(t0); dt > 500*time.Millisecond {
		atomic.AddInt64(&e.SlowExecs, 1)
		if s.Cut {
			atomic.AddInt64(&e.SlowCut, 1)
		}
	}
	if e.AfterRun != nil {
		defer e.AfterRun(s)
	}
	atomic.AddInt64(&e.Execs, 1)
	if s.Cut {
		atomic.AddInt64(&e.Cut, 1)
	}
	if int64(len(s.Points)) > atomic.LoadInt64(&e.MaxPoints) {
		atomic.StoreInt64(&e.MaxPoints, int64(len(s.Points)))
	}
	atomic.AddInt64(&e.Transitions, int64(s.Switches+len(s.Points)))
	f := s.Fail
	if f == nil && !s.Cut && check != nil {
		f = check(s)
	}
	if f != nil && f.Kind != "replay-divergence" {
		choices := make([]int, len(s.Points))
		for i, p := range s.Points {
			choices[i] = p.Chosen
		}
		// a failure is believed only if the recorded schedule reproduces it
		setup2, body2, check2 := e.NewRun()
		s2 := Run(Config{Prefix: choices, MaxSteps: e.MaxSteps, Fine: e.Fine}, setup2, body2)
		f2 := s2.Fail
		if f2 == nil && check2 != nil {
			f2 = check2(s2)
		}
		if e.AfterRun != nil {
			e.AfterRun(s2)
		}
		if f2 == nil || f2.Kind != f.Kind {
			got := "no failure"
			if f2 != nil {
				got = f2.Kind + ": " + f2.Msg
			}
			f = &Failure{Kind: "replay-divergence", Msg: "failure did not reproduce on replay of its own schedule: first " + f.Kind + ": " + f.Msg + "; then " + got}
		}
		e.OnFailure(choices, s, f)
	} else if f != nil {
		e.OnFailure(prefix, s, f)
	}
	if !s.Cut {
		key := fmt.Sprint(s.Obs)
		if f != nil {
			key = f.Kind + ":" + f.Msg
		}
		n, _ := e.outcomes.LoadOrStore(key, new(int64))
		atomic.AddInt64(n.(*int64), 1)
	}
	// alternatives at points beyond the prefix
	pre = 0
	devs := 0
	base := make([]int, len(s.Points))
	for i, p := range s.Points {
		base[i] = p.Chosen
	}
	for i, p := range s.Points {
		isChoice := strings.HasPrefix(p.Label, "choose:")
		if i >= len(prefix) && (!p.Frozen || isChoice) {
			for alt := 1; alt < len(p.Enabled); alt++ {
				if isChoice && e.MaxChoiceDev > 0 && devs+1 > e.MaxChoiceDev {
					continue
				}
				if e.Filter != nil && !e.Filter(&s.Points[i], alt) {
					continue
				}
				cost := pre
				if p.RunningStill {
					cost++
				}
				if e.Bound >= 0 && cost > e.Bound {
					continue
				}
				next = append(next, work{base, i, alt, cost})
			}
		}
		if p.RunningStill && p.Chosen != 0 {
			pre++
		}
		if isChoice && p.Chosen != 0 {
			devs++
		}
	}
	return s, next
}

func preemptions(ps []Point) int {
	n := 0
	for _, p := range ps {
		if p.RunningStill && p.Chosen != 0 {
			n++
		}
	}
	return n
}

// Explore runs the search with a pool of workers sharing a LIFO work list.
func (e *Explorer) Explore() {
	if e.Workers <= 0 || HasSharedState() {
		e.Workers = 1
	}
	var mu sync.Mutex
	cond := sync.NewCond(&mu)
	// iterative context bounding in one pass: pending alternatives are kept per number of preemptions
	// and the cheapest are run first (LIFO within one level), so that every execution with k
	// preemptions is explored before any with k+1
	nb := 1
	if e.Bound > 0 {
		nb = e.Bound + 1
	}
	stacks := make([][]work, nb)
	stacks[0] = []work{{nil, -1, 0, 0}}
	pending := 1
	active := 0
	var wg sync.WaitGroup
	for w := 0; w < e.Workers; w++ {
		wg.Add(1)
		go func() {
			defer wg.Done()
			for {
				mu.Lock()
				for pending == 0 && active > 0 && !e.stop.Load() {
					cond.Wait()
				}
				if e.stop.Load() || (pending == 0 && active == 0) {
					mu.Unlock()
					cond.Broadcast()
					return
				}
				var it work
				for b := range stacks {
					if n := len(stacks[b]); n > 0 {
						it = stacks[b][n-1]
						stacks[b] = stacks[b][:n-1]
						break
					}
				}
				pending--
				active++
				mu.Unlock()
				_, next := e.exec(it.prefix(), it.pre)
				mu.Lock()
				for _, nx := range next {
					b := nx.pre
					if b >= nb {
						b = nb - 1
					}
					stacks[b] = append(stacks[b], nx)
				}
				pending += len(next)
				active--
				if (e.MaxExecs > 0 && atomic.LoadInt64(&e.Execs) >= e.MaxExecs) || (!e.Deadline.IsZero() && time.Now().After(e.Deadline)) {
					if pending > 0 || active > 0 {
						e.Capped = true
					}
					e.stop.Store(true)
				}
				mu.Unlock()
				cond.Broadcast()
			}
		}()
	}
	wg.Wait()
}

func (e *Explorer) Stop() { e.stop.Store(true) }

func (e *Explorer) Outcomes() map[string]int64 {
	m := map[string]int64{}
	e.outcomes.Range(func(k, v any) bool { m[k.(string)] = atomic.LoadInt64(v.(*int64)); return true })
	return m
}
