//go:build verif

package vsched

import "verif/harness/gid"

func getg() uintptr { return gid.Get() }
