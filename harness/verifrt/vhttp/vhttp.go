//go:build verif

// Package vhttp is a model of net/http.Server (ListenAndServe / Shutdown / Close
// and connection handling) on a model network, driven by the vsched scheduler.
// Its steps mirror the mutex-delimited sections of go1.23 net/http/server.go.
// The instrumenter rewrites http.Server to vhttp.Server in server/server.go.
package vhttp

import (
	"bytes"
	"context"
	"errors"
	"fmt"
	"io"
	"net/http"
	"net/http/httptest"
	"sort"
	"strconv"
	"strings"
	"sync"
	"time"

	"worldcoin/gnark-mbu/verifrt/vsched"
)

// ---- model network -----------------------------------------------------------

type Network struct {
	bound   map[string]*listener
	nconn   int
	servers []*Server
	// history of binds/unbinds for observations
	Log              []string
	acceptingWaiters []*vsched.Thread
	gateN, gateSeen  int
	gateQ            []*vsched.Thread
	gateOwner        *vsched.Thread
	// TestHookServe, if set, runs inside the window between net.Listen and the
	// listener registration (the counterpart of net/http's testHookServerServe)
	TestHookServe func(srv *Server)
}

type listener struct {
	addr    string
	srv     *Server
	closed  bool
	tracked bool
	backlog []*Conn
	acceptq []*vsched.Thread
}

type Conn struct {
	ID       int
	Client   string
	Req      *http.Request
	Rec      *httptest.ResponseRecorder
	State    string // queued | active | complete | refused | reset | aborted
	waiter   *vsched.Thread
	Panicked any
	// ground truth at the instants the handler was entered and left (per server address):
	// connections inside a handler and handlers that have returned
	Before, After map[string][2]int
}

// Snapshot returns, per server address, {connections currently being served, handlers that have returned}.
func (n *Network) Snapshot() map[string][2]int {
	m := map[string][2]int{}
	for _, s := range n.servers {
		m[s.Addr] = [2]int{len(s.active), s.completed}
	}
	return m
}

var nets = map[*vsched.Sched]*Network{}
var netsMu sync.Mutex

// Net returns the model network of the calling thread's execution.
func Net() *Network {
	t := vsched.Current()
	if t == nil {
		panic("vhttp used outside a scheduled execution")
	}
	return NetOf(t.Sched())
}

func NetOf(s *vsched.Sched) *Network {
	netsMu.Lock()
	defer netsMu.Unlock()
	return nets[s]
}

// Install creates the model network for an execution (call from the explorer's setup).
func Install(s *vsched.Sched) *Network {
	n := &Network{bound: map[string]*listener{}}
	netsMu.Lock()
	nets[s] = n
	netsMu.Unlock()
	s.RegisterState(n.state)
	return n
}

func Uninstall(s *vsched.Sched) {
	netsMu.Lock()
	delete(nets, s)
	netsMu.Unlock()
}

func (n *Network) state() string {
	var parts []string
	for a, l := range n.bound {
		p := "L" + a
		if l.tracked {
			p += "t"
		}
		if l.closed {
			p += "c"
		}
		for _, c := range l.backlog {
			p += "," + c.Client
		}
		parts = append(parts, p)
	}
	for i, s := range n.servers {
		p := "S" + strconv.Itoa(i) + s.Addr
		if s.inShutdown {
			p += "s"
		}
		p += strconv.Itoa(s.listenerGroup)
		if len(s.active) > 0 {
			var ac []string
			for c := range s.active {
				ac = append(ac, c.Client)
			}
			sort.Strings(ac)
			p += strings.Join(ac, ",")
		}
		parts = append(parts, p)
	}
	sort.Strings(parts)
	return strings.Join(parts, ";")
}

// HoldConns makes accepted connections wait at the handler's door; AwaitHeld blocks
// the caller until k connections are waiting there and then opens the door. Harnesses
// use the pair so that every handler thread exists before the interleavings between
// them are explored (the caller then blocks and the lowest-named handler runs first).
func (n *Network) HoldConns(k int) { n.gateN, n.gateSeen = k, 0 }

func (n *Network) AwaitHeld() {
	t := vsched.Current()
	for n.gateSeen < n.gateN {
		n.gateOwner = t
		t.Block("all connections accepted")
	}
	n.gateN = 0
	for _, w := range n.gateQ {
		w.Unblock()
	}
	n.gateQ = nil
}

func (n *Network) gate(t *vsched.Thread) {
	if n.gateN == 0 {
		return
	}
	n.gateSeen++
	if n.gateSeen >= n.gateN && n.gateOwner != nil {
		n.gateOwner.Unblock()
	}
	for n.gateN != 0 {
		n.gateQ = append(n.gateQ, t)
		t.Block("door opened")
	}
}

// ActiveConns counts accepted connections whose handler has not returned yet (all servers).
func (n *Network) ActiveConns() int {
	k := 0
	for _, s := range n.servers {
		k += len(s.active)
	}
	return k
}

// Bound reports whether an address is currently bound (what a fresh net.Listen would trip over).
func (n *Network) Bound(addr string) bool { _, ok := n.bound[addr]; return ok }

func (n *Network) BoundAddrs() []string {
	var a []string
	for k := range n.bound {
		a = append(a, k)
	}
	sort.Strings(a)
	return a
}

// Accepting reports whether a server is in its accept loop on addr.
func (n *Network) Accepting(addr string) bool {
	l, ok := n.bound[addr]
	return ok && l.tracked && !l.closed
}

func (n *Network) unbind(l *listener, why string) {
	if cur, ok := n.bound[l.addr]; ok && cur == l {
		delete(n.bound, l.addr)
		n.Log = append(n.Log, "unbind "+l.addr+" ("+why+")")
	}
	l.closed = true
	// connections still in the kernel backlog are reset
	for _, c := range l.backlog {
		c.State = "reset"
		if c.waiter != nil {
			c.waiter.Unblock()
		}
	}
	l.backlog = nil
	for _, t := range l.acceptq {
		t.Unblock()
	}
	l.acceptq = nil
}

// ---- server --------------------------------------------------------------------

type Server struct {
	Addr    string
	Handler http.Handler
	// Deadlines of net/http.Server. Time is not modelled: a deadline that is set MAY pass
	// before the response has been flushed (an explored choice), in which case the
	// connection is dropped after the handler returned (and after the metrics were updated).
	ReadTimeout, ReadHeaderTimeout, WriteTimeout, IdleTimeout time.Duration
	MaxHeaderBytes                                            int

	inShutdown    bool
	listeners     map[*listener]bool
	listenerGroup int
	lgWaiters     []*vsched.Thread
	active        map[*Conn]bool
	idleWaiters   []*vsched.Thread
	registered    bool
	completed     int
	onShutdown    []func()
}

func (srv *Server) init() {
	if !srv.registered {
		srv.registered = true
		srv.listeners = map[*listener]bool{}
		srv.active = map[*Conn]bool{}
		n := Net()
		n.servers = append(n.servers, srv)
	}
}

var errAddrInUse = errors.New("listen tcp: bind: address already in use")

func (srv *Server) ListenAndServe() error {
	srv.init()
	t := vsched.Current()
	n := Net()
	vsched.Sync("ListenAndServe:shuttingDown?")
	if srv.inShutdown {
		t.Note("LAS:closed-early")
		return http.ErrServerClosed
	}
	vsched.Sync("ListenAndServe:net.Listen")
	if n.Bound(srv.Addr) {
		t.Note("LAS:addr-in-use")
		return fmt.Errorf("listen tcp %s: bind: address already in use", srv.Addr)
	}
	l := &listener{addr: srv.Addr, srv: srv}
	n.bound[srv.Addr] = l
	n.Log = append(n.Log, "bind "+srv.Addr)
	// window between net.Listen and Serve's trackListener (testHookServerServe sits here)
	vsched.Sync("Serve:before-trackListener")
	if n.TestHookServe != nil {
		n.TestHookServe(srv)
	}
	if srv.inShutdown {
		// trackListener refuses; the deferred l.Close() runs as a separate step
		vsched.Sync("Serve:deferred-listener-close")
		n.unbind(l, "Serve refused: shutting down")
		t.Note("LAS:closed-in-window")
		return http.ErrServerClosed
	}
	l.tracked = true
	srv.listeners[l] = true
	srv.listenerGroup++
	for _, w := range n.acceptingWaiters {
		w.Unblock()
	}
	n.acceptingWaiters = nil
	for {
		vsched.Sync("Serve:accept")
		for len(l.backlog) == 0 && !l.closed {
			l.acceptq = append(l.acceptq, t)
			t.Block("accept on " + srv.Addr)
		}
		if l.closed {
			break
		}
		c := l.backlog[0]
		l.backlog = l.backlog[1:]
		c.State = "active"
		srv.active[c] = true // trackConn/StateNew happens in the accept loop, before `go c.serve`
		t.Note("accept:" + c.Client)
		vsched.GoNamed(fmt.Sprintf("conn-%s-%s", srv.Addr, c.Client), func() { srv.serve(c) })
	}
	// deferred: trackListener(false) then l.Close()
	vsched.Sync("Serve:untrack")
	delete(srv.listeners, l)
	srv.listenerGroup--
	if srv.listenerGroup == 0 {
		for _, w := range srv.lgWaiters {
			w.Unblock()
		}
		srv.lgWaiters = nil
	}
	n.unbind(l, "Serve returned")
	t.Note("LAS:closed")
	return http.ErrServerClosed
}

func (srv *Server) serve(c *Conn) {
	defer func() {
		if r := recover(); r != nil {
			// net/http recovers handler panics, logs them and drops the connection
			if vsched.IsAbort(r) {
				panic(r)
			}
			c.Panicked = r
			if c.State == "active" {
				c.State = "aborted"
			}
		} else if c.State == "active" {
			c.State = "complete"
			if srv.WriteTimeout > 0 || srv.ReadTimeout > 0 {
				if vsched.Choose(2, "write-deadline-passes") == 1 {
					c.State = "aborted" // the flush fails: the client sees a closed connection
				}
			}
		}
		delete(srv.active, c)
		srv.completed++
		c.After = Net().Snapshot()
		if c.waiter != nil {
			c.waiter.Unblock()
		}
		if len(srv.active) == 0 {
			for _, w := range srv.idleWaiters {
				w.Unblock()
			}
			srv.idleWaiters = nil
		}
	}()
	Net().gate(vsched.Current())
	c.Before = Net().Snapshot()
	srv.Handler.ServeHTTP(c.Rec, c.Req)
	// the response is part of the state: fold it into this thread's history
	vsched.Current().Note(fmt.Sprintf("resp:%d:%s", c.Rec.Code, digestBody(c.Rec.Body.Bytes())))
}

// digestBody: the whole body, except for Prometheus expositions where only the
// request-metric lines count (runtime/process collectors vary from run to run).
func digestBody(b []byte) string {
	if !bytes.HasPrefix(b, []byte("# HELP")) {
		return string(b)
	}
	var keep []string
	for _, line := range strings.Split(string(b), "\n") {
		if strings.Contains(line, "endpoint_pattern") && !strings.Contains(line, "_seconds") && !strings.Contains(line, "_bytes") {
			keep = append(keep, line)
		}
	}
	return strings.Join(keep, "|")
}

func (srv *Server) Shutdown(ctx context.Context) error {
	srv.init()
	t := vsched.Current()
	n := Net()
	vsched.Sync("Shutdown:inShutdown.Store")
	srv.inShutdown = true
	vsched.Sync("Shutdown:closeListeners")
	for l := range srv.listeners {
		n.unbind(l, "Shutdown")
	}
	for _, f := range srv.onShutdown {
		vsched.Go(f) // `go f()` in net/http: nobody waits for it
	}
	vsched.Sync("Shutdown:listenerGroup.Wait")
	for srv.listenerGroup > 0 {
		srv.lgWaiters = append(srv.lgWaiters, t)
		t.Block("listenerGroup of " + srv.Addr)
	}
	vsched.Sync("Shutdown:wait-idle")
	for len(srv.active) > 0 {
		// a context that can expire makes the wait abandonable: time is not modelled, so
		// whether the deadline passes while connections are still active is a recorded
		// nondeterministic choice (context.Background() never expires: no choice)
		if _, has := ctx.Deadline(); has || ctx.Done() != nil {
			if vsched.Choose(2, "shutdown-context-expires") == 1 {
				t.Note("Shutdown:deadline")
				return context.DeadlineExceeded
			}
		}
		srv.idleWaiters = append(srv.idleWaiters, t)
		t.Block("active connections of " + srv.Addr)
	}
	t.Note("Shutdown:done")
	return nil
}

// Close closes listeners and aborts active connections without waiting.
func (srv *Server) Close() error {
	srv.init()
	n := Net()
	vsched.Sync("Close:inShutdown.Store")
	srv.inShutdown = true
	vsched.Sync("Close:closeListeners")
	for l := range srv.listeners {
		n.unbind(l, "Close")
	}
	for c := range srv.active {
		c.State = "aborted"
		if c.waiter != nil {
			c.waiter.Unblock()
		}
	}
	return nil
}

// RegisterOnShutdown: net/http starts every registered function in its own goroutine after the listeners
// have been closed (Shutdown only; Close does not run them).
func (srv *Server) RegisterOnShutdown(f func()) { srv.onShutdown = append(srv.onShutdown, f) }

// ---- clients ---------------------------------------------------------------------

type Response struct {
	Before, After map[string][2]int
	Outcome       string // refused | reset | aborted | complete
	Status        int
	Header        http.Header
	Body          []byte
}

// Stall models a client that has sent its request headers but not yet the (whole) body: the handler's
// first read of the body blocks until Release. Harnesses use it to hold any number of requests inside
// their handlers ("in flight") without exploring how they got there.
type Stall struct {
	released bool
	parked   int
	q        []*vsched.Thread
	awaiting []*vsched.Thread
}

func (s *Stall) Release() {
	s.released = true
	for _, t := range s.q {
		t.Unblock()
	}
	s.q = nil
}

// Parked: handlers currently blocked reading a stalled body.
func (s *Stall) Parked() int { return s.parked }

// AwaitParked blocks the caller until k handlers are parked on the stalled body.
func (s *Stall) AwaitParked(k int) {
	t := vsched.Current()
	for s.parked < k {
		s.awaiting = append(s.awaiting, t)
		t.Block(fmt.Sprintf("%d handlers reading a stalled body", k))
	}
}

type stallBody struct {
	s *Stall
	r *bytes.Reader
}

func (b *stallBody) Read(p []byte) (int, error) {
	if !b.s.released {
		t := vsched.Current()
		vsched.Sync("body:stalled")
		b.s.parked++
		for _, w := range b.s.awaiting {
			w.Unblock()
		}
		b.s.awaiting = nil
		for !b.s.released {
			b.s.q = append(b.s.q, t)
			t.Block("the rest of the request body")
		}
		b.s.parked--
	}
	return b.r.Read(p)
}

// DoStalled is Do with a body that arrives only after st.Release().
func DoStalled(client, addr, method, path string, body []byte, st *Stall) *Response {
	return do(client, addr, method, path, &stallBody{s: st, r: bytes.NewReader(body)})
}

// Do sends one request to addr from the calling thread and blocks for the outcome.
func Do(client, addr, method, path string, body []byte) *Response {
	return do(client, addr, method, path, bytes.NewReader(body))
}

func do(client, addr, method, path string, body io.Reader) *Response {
	t := vsched.Current()
	n := Net()
	vsched.Sync("client:connect")
	l, ok := n.bound[addr]
	if !ok || l.closed {
		t.Note("client:refused")
		return &Response{Outcome: "refused"}
	}
	req := httptest.NewRequest(method, "http://"+addr+path, body)
	n.nconn++
	c := &Conn{ID: n.nconn, Client: client, Req: req, Rec: httptest.NewRecorder(), State: "queued", waiter: t}
	l.backlog = append(l.backlog, c)
	for _, a := range l.acceptq {
		a.Unblock()
	}
	l.acceptq = nil
	for c.State == "queued" || c.State == "active" {
		t.Block("response for " + client)
	}
	res := &Response{Outcome: c.State, Before: c.Before, After: c.After}
	if c.State == "complete" {
		r := c.Rec.Result()
		res.Status = r.StatusCode
		res.Header = r.Header
		res.Body, _ = io.ReadAll(r.Body)
	}
	t.Note(fmt.Sprintf("client:%s:%d", res.Outcome, res.Status))
	return res
}

// WaitAccepting blocks (by yielding) until a server accepts on addr; harness helper.
func WaitAccepting(addr string) {
	n := Net()
	t := vsched.Current()
	for !n.Accepting(addr) {
		n.acceptingWaiters = append(n.acceptingWaiters, t)
		t.Block("server accepting on " + addr)
	}
}
