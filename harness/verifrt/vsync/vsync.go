//go:build verif

// Package vsync provides sync.Mutex/RWMutex/WaitGroup/Once equivalents whose
// blocking is visible to the vsched scheduler. The repository does not use sync
// today; these exist so that a changed tree that introduces them is still explored.
package vsync

import "worldcoin/gnark-mbu/verifrt/vsched"

type Mutex struct {
	locked bool
	q      []*vsched.Thread
}

func (m *Mutex) Lock() {
	t := vsched.Current()
	vsched.Sync("lock")
	if t == nil {
		return
	}
	for m.locked {
		m.q = append(m.q, t)
		t.Block("mutex")
	}
	m.locked = true
}

func (m *Mutex) TryLock() bool {
	vsched.Sync("trylock")
	if m.locked {
		return false
	}
	m.locked = true
	return true
}

func (m *Mutex) Unlock() {
	vsched.Sync("unlock")
	if !m.locked {
		panic("sync: unlock of unlocked mutex")
	}
	m.locked = false
	for _, t := range m.q {
		t.Unblock()
	}
	m.q = nil
}

type RWMutex struct {
	w       bool
	readers int
	q       []*vsched.Thread
}

func (m *RWMutex) wake() {
	for _, t := range m.q {
		t.Unblock()
	}
	m.q = nil
}

func (m *RWMutex) Lock() {
	t := vsched.Current()
	vsched.Sync("wlock")
	if t == nil {
		return
	}
	for m.w || m.readers > 0 {
		m.q = append(m.q, t)
		t.Block("rwmutex write")
	}
	m.w = true
}

func (m *RWMutex) Unlock() {
	vsched.Sync("wunlock")
	m.w = false
	m.wake()
}

func (m *RWMutex) RLock() {
	t := vsched.Current()
	vsched.Sync("rlock")
	if t == nil {
		return
	}
	for m.w {
		m.q = append(m.q, t)
		t.Block("rwmutex read")
	}
	m.readers++
}

func (m *RWMutex) RUnlock() {
	vsched.Sync("runlock")
	m.readers--
	m.wake()
}

type WaitGroup struct {
	n int
	q []*vsched.Thread
}

func (w *WaitGroup) Add(d int) {
	vsched.Sync("wg.add")
	w.n += d
	if w.n < 0 {
		panic("sync: negative WaitGroup counter")
	}
	if w.n == 0 {
		for _, t := range w.q {
			t.Unblock()
		}
		w.q = nil
	}
}

func (w *WaitGroup) Done() { w.Add(-1) }

func (w *WaitGroup) Wait() {
	t := vsched.Current()
	vsched.Sync("wg.wait")
	if t == nil {
		return
	}
	for w.n > 0 {
		w.q = append(w.q, t)
		t.Block("waitgroup")
	}
}

type Once struct {
	done bool
	m    Mutex
}

func (o *Once) Do(f func()) {
	if o.done {
		return
	}
	o.m.Lock()
	defer o.m.Unlock()
	if !o.done {
		defer func() { o.done = true }()
		f()
	}
}

// Pool replaces sync.Pool with a deterministic LIFO free list: a Get always
// receives the most recently Put object. This is the reuse pattern under which
// "used after Put" and "not reset before Put" defects show; the real pool's
// per-P caches would make them depend on the runtime's scheduling.
type Pool struct {
	New  func() any
	free []any
}

func (p *Pool) Get() any {
	vsched.Sync("pool.get")
	if n := len(p.free); n > 0 {
		x := p.free[n-1]
		p.free = p.free[:n-1]
		return x
	}
	if p.New != nil {
		return p.New()
	}
	return nil
}

func (p *Pool) Put(x any) {
	vsched.Sync("pool.put")
	if x != nil {
		p.free = append(p.free, x)
	}
}
