//go:build verif

// Package vsync provides sync.Mutex/RWMutex/WaitGroup/Once equivalents whose
// blocking is visible to the vsched scheduler. The repository does not use sync
// today; these exist so that a changed tree that introduces them is still explored.
package vsync

import (
	"sync"
	"sync/atomic"

	"worldcoin/gnark-mbu/verifrt/vsched"
)

// Every primitive falls back to the real one when the caller is not a scheduler thread (instrumented
// code that also runs free, e.g. in the sequential phases of a check): `real` carries that use.

type Mutex struct {
	locked bool
	q      []*vsched.Thread
	real   sync.Mutex
}

func (m *Mutex) Lock() {
	t := vsched.Current()
	if t == nil {
		m.real.Lock()
		return
	}
	vsched.Sync("lock")
	for m.locked {
		m.q = append(m.q, t)
		t.Block("mutex")
	}
	m.locked = true
}

func (m *Mutex) TryLock() bool {
	if vsched.Current() == nil {
		return m.real.TryLock()
	}
	vsched.Sync("trylock")
	if m.locked {
		return false
	}
	m.locked = true
	return true
}

func (m *Mutex) Unlock() {
	if vsched.Current() == nil {
		m.real.Unlock()
		return
	}
	vsched.Sync("unlock")
	if !m.locked {
		panic("sync: unlock of unlocked mutex")
	}
	m.locked = false
	for _, t := range m.q {
		t.Unblock()
	}
	m.q = nil
}

type RWMutex struct {
	w       bool
	readers int
	q       []*vsched.Thread
	real    sync.RWMutex
}

func (m *RWMutex) wake() {
	for _, t := range m.q {
		t.Unblock()
	}
	m.q = nil
}

func (m *RWMutex) Lock() {
	t := vsched.Current()
	if t == nil {
		m.real.Lock()
		return
	}
	vsched.Sync("wlock")
	for m.w || m.readers > 0 {
		m.q = append(m.q, t)
		t.Block("rwmutex write")
	}
	m.w = true
}

func (m *RWMutex) Unlock() {
	if vsched.Current() == nil {
		m.real.Unlock()
		return
	}
	vsched.Sync("wunlock")
	m.w = false
	m.wake()
}

func (m *RWMutex) RLock() {
	t := vsched.Current()
	if t == nil {
		m.real.RLock()
		return
	}
	vsched.Sync("rlock")
	for m.w {
		m.q = append(m.q, t)
		t.Block("rwmutex read")
	}
	m.readers++
}

func (m *RWMutex) RUnlock() {
	if vsched.Current() == nil {
		m.real.RUnlock()
		return
	}
	vsched.Sync("runlock")
	m.readers--
	m.wake()
}

type WaitGroup struct {
	n    int
	q    []*vsched.Thread
	real sync.WaitGroup
}

func (w *WaitGroup) Add(d int) {
	if vsched.Current() == nil {
		w.real.Add(d)
		return
	}
	vsched.Sync("wg.add")
	w.n += d
	if w.n < 0 {
		panic("sync: negative WaitGroup counter")
	}
	if w.n == 0 {
		for _, t := range w.q {
			t.Unblock()
		}
		w.q = nil
	}
}

func (w *WaitGroup) Done() { w.Add(-1) }

func (w *WaitGroup) Wait() {
	t := vsched.Current()
	if t == nil {
		w.real.Wait()
		return
	}
	vsched.Sync("wg.wait")
	for w.n > 0 {
		w.q = append(w.q, t)
		t.Block("waitgroup")
	}
}

type Once struct {
	done atomic.Bool
	m    Mutex
}

func (o *Once) Do(f func()) {
	if o.done.Load() {
		return
	}
	o.m.Lock()
	defer o.m.Unlock()
	if !o.done.Load() {
		defer o.done.Store(true)
		f()
	}
}

// Pool replaces sync.Pool with a deterministic LIFO free list: a Get always
// receives the most recently Put object. This is the reuse pattern under which
// "used after Put" and "not reset before Put" defects show; the real pool's
// per-P caches would make them depend on the runtime's scheduling.
type Pool struct {
	New  func() any
	free []any
	mu   sync.Mutex // guards free (never held across a scheduling point)
}

func (p *Pool) Get() any {
	vsched.Sync("pool.get")
	p.mu.Lock()
	if n := len(p.free); n > 0 {
		x := p.free[n-1]
		p.free = p.free[:n-1]
		p.mu.Unlock()
		return x
	}
	p.mu.Unlock()
	if p.New != nil {
		return p.New()
	}
	return nil
}

func (p *Pool) Put(x any) {
	vsched.Sync("pool.put")
	if x != nil {
		p.mu.Lock()
		p.free = append(p.free, x)
		p.mu.Unlock()
	}
}
