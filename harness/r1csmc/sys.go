package r1csmc

import (
	"fmt"
	"math"
	"math/big"
	"sort"

	"github.com/consensys/gnark/constraint"
)

type Term[T any] struct {
	C T
	W int // wire id; -1 = constant term
}

type Cons[T any] struct {
	L, R, O []Term[T]
	Wires   []int // distinct wires occurring, ascending
}

type HintSite struct {
	Name   string
	Inputs [][2]int // index into hintInputs (see Sys.hintIn)
	Wires  []int
	idx    int
}

type Sys[T any, O Ops[T]] struct {
	F       O
	NWires  int
	NPublic int // including the ONE wire
	NSecret int
	Names   map[string]int // input name -> wire id
	Cons    []Cons[T]
	Hints   map[int]*HintSite // wire id -> site
	Sites   []*HintSite
	hintIn  [][][]Term[T] // per site, per input: linear expression
}

type coreView interface {
	GetConstraints() ([]constraint.R1C, constraint.Resolver)
	GetNbPublicVariables() int
	GetNbSecretVariables() int
	GetNbInternalVariables() int
}

// Load reads a compiled system. sysInfo must be the embedded *constraint.System
// (for names and hints), obtained by the caller from the concrete type.
func Load[T any, O Ops[T]](f O, cs coreView, info *constraint.System) (*Sys[T, O], error) {
	r1cs, res := cs.GetConstraints()
	s := &Sys[T, O]{F: f, NPublic: cs.GetNbPublicVariables(), NSecret: cs.GetNbSecretVariables()}
	s.NWires = s.NPublic + s.NSecret + cs.GetNbInternalVariables()
	s.Names = map[string]int{}
	for i, n := range info.Public {
		s.Names[n] = i
	}
	for i, n := range info.Secret {
		s.Names[n] = len(info.Public) + i
	}
	coeff := map[int]T{}
	getC := func(id int) (T, error) {
		if v, ok := coeff[id]; ok {
			return v, nil
		}
		str := res.CoeffToString(id)
		b, ok := new(big.Int).SetString(str, 10)
		if !ok {
			var z T
			return z, fmt.Errorf("cannot parse coefficient %q", str)
		}
		v := f.FromBig(new(big.Int).Mod(b, f.P()))
		coeff[id] = v
		return v, nil
	}
	conv := func(le constraint.LinearExpression) ([]Term[T], error) {
		out := make([]Term[T], 0, len(le))
		for _, t := range le {
			c, err := getC(t.CoeffID())
			if err != nil {
				return nil, err
			}
			w := t.WireID()
			if t.VID == math.MaxUint32 {
				w = -1
			} else if w >= s.NWires {
				return nil, fmt.Errorf("wire id %d out of range", w)
			}
			out = append(out, Term[T]{c, w})
		}
		return out, nil
	}
	for _, c := range r1cs {
		var k Cons[T]
		var err error
		if k.L, err = conv(c.L); err != nil {
			return nil, err
		}
		if k.R, err = conv(c.R); err != nil {
			return nil, err
		}
		if k.O, err = conv(c.O); err != nil {
			return nil, err
		}
		seen := map[int]bool{}
		for _, le := range [][]Term[T]{k.L, k.R, k.O} {
			for _, t := range le {
				if t.W >= 0 && !seen[t.W] {
					seen[t.W] = true
					k.Wires = append(k.Wires, t.W)
				}
			}
		}
		sort.Ints(k.Wires)
		s.Cons = append(s.Cons, k)
	}
	s.Hints = map[int]*HintSite{}
	done := map[*constraint.Hint]*HintSite{}
	var wires []int
	for w := range info.MHints {
		wires = append(wires, w)
	}
	sort.Ints(wires)
	for _, w := range wires {
		h := info.MHints[w]
		site, ok := done[h]
		if !ok {
			site = &HintSite{Name: info.MHintsDependencies[h.ID], Wires: append([]int{}, h.Wires...), idx: len(s.Sites)}
			var ins [][]Term[T]
			for _, le := range h.Inputs {
				e, err := conv(le)
				if err != nil {
					return nil, err
				}
				ins = append(ins, e)
			}
			s.hintIn = append(s.hintIn, ins)
			s.Sites = append(s.Sites, site)
			done[h] = site
		}
		s.Hints[w] = site
	}
	return s, nil
}

func (s *Sys[T, O]) eval(le []Term[T], w []T) T {
	acc := s.F.Zero()
	for _, t := range le {
		if t.W < 0 {
			acc = s.F.Add(acc, t.C)
		} else {
			acc = s.F.Add(acc, s.F.Mul(t.C, w[t.W]))
		}
	}
	return acc
}

// Check is the independent evaluator: index of the first violated constraint, or -1.
func (s *Sys[T, O]) Check(w []T) int {
	if len(w) != s.NWires {
		return 0
	}
	for i := range s.Cons {
		c := &s.Cons[i]
		if !s.F.Eq(s.F.Mul(s.eval(c.L, w), s.eval(c.R, w)), s.eval(c.O, w)) {
			return i
		}
	}
	return -1
}
