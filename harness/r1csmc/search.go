package r1csmc

import (
	"fmt"
	"math/big"
)

// Policy returns the candidate output vectors for one hint site given its input
// values (as integers in [0,p)). It is only consulted when the field is too large
// to enumerate; candidates[0] must be the honest answer; every further candidate
// costs one deviation.
type Policy func(site *HintSite, siteIndex int, inputs []*big.Int, p *big.Int) [][]*big.Int

type Search[T any, O Ops[T]] struct {
	S        *Sys[T, O]
	Policy   Policy
	MaxDev   int // deviation bound for policy alternatives
	Nodes    int64
	Edges    int64
	Forced   int64
	Branches int64 // adversary choice points
	Survived int64 // non-honest / non-first choices that survived at least one further constraint
	Deviated int64
	MaxNodes int64 // safety cap per Run (0 = none)
	Capped   bool
	Err      error
	w        []T
	set      []bool
	trail    []int
	onAccept func(w []T) bool
	stop     bool
}

// Run explores all completions of the given partial assignment (assigned[i] says
// whether init[i] is fixed). accept is called with every accepting full
// assignment (unconstrained wires are left at zero); returning false stops.
func (x *Search[T, O]) Run(init []T, assigned []bool, accept func(w []T) bool) {
	s := x.S
	x.w = make([]T, s.NWires)
	x.set = make([]bool, s.NWires)
	copy(x.w, init)
	copy(x.set, assigned)
	x.w[0] = s.F.One()
	x.set[0] = true
	x.trail = x.trail[:0]
	x.onAccept = accept
	x.stop = false
	x.Capped = false
	x.Err = nil
	x.dfs(0, 0, false)
}

func (x *Search[T, O]) assign(wire int, v T) {
	x.w[wire] = v
	x.set[wire] = true
	x.trail = append(x.trail, wire)
}

func (x *Search[T, O]) undo(to int) {
	for len(x.trail) > to {
		w := x.trail[len(x.trail)-1]
		x.set[w] = false
		x.trail = x.trail[:len(x.trail)-1]
	}
}

// split evaluates a linear expression as (constant part, coefficient of wire u).
func (x *Search[T, O]) split(le []Term[T], u int) (c0, c1 T) {
	f := x.S.F
	c0, c1 = f.Zero(), f.Zero()
	for _, t := range le {
		switch {
		case t.W < 0:
			c0 = f.Add(c0, t.C)
		case t.W == u:
			c1 = f.Add(c1, t.C)
		default:
			c0 = f.Add(c0, f.Mul(t.C, x.w[t.W]))
		}
	}
	return
}

func (x *Search[T, O]) dfs(ci int, dev int, pendingDeviation bool) {
	if x.stop {
		return
	}
	s, f := x.S, x.S.F
	for ci < len(s.Cons) {
		x.Nodes++
		if x.MaxNodes > 0 && x.Nodes > x.MaxNodes {
			x.Capped, x.stop = true, true
			return
		}
		c := &s.Cons[ci]
		// unassigned wires of this constraint
		u1, u2, n := -1, -1, 0
		for _, w := range c.Wires {
			if !x.set[w] {
				if n == 0 {
					u1 = w
				} else if n == 1 {
					u2 = w
				}
				n++
			}
		}
		if n == 0 {
			if !f.Eq(f.Mul(s.eval(c.L, x.w), s.eval(c.R, x.w)), s.eval(c.O, x.w)) {
				return // dead state
			}
			if pendingDeviation {
				x.Survived++
				pendingDeviation = false
			}
			ci++
			continue
		}
		// large field: hint outputs are answered by the adversary policy
		if !f.Small() {
			hw := -1
			for _, w := range c.Wires {
				if !x.set[w] {
					if _, ok := s.Hints[w]; ok {
						hw = w
						break
					}
				}
			}
			if hw >= 0 {
				site := s.Hints[hw]
				ins := make([]*big.Int, len(s.hintIn[site.idx]))
				for i, le := range s.hintIn[site.idx] {
					for _, t := range le {
						if t.W >= 0 && !x.set[t.W] {
							x.Err = fmt.Errorf("hint %s input not yet assigned at constraint %d", site.Name, ci)
							x.stop = true
							return
						}
					}
					ins[i] = f.ToBig(s.eval(le, x.w))
				}
				cands := x.Policy(site, site.idx, ins, f.P())
				if len(cands) == 0 {
					x.Err = fmt.Errorf("no candidate for hint %s", site.Name)
					x.stop = true
					return
				}
				x.Branches++
				mark := len(x.trail)
				for k, cand := range cands {
					d := dev
					if k > 0 {
						d++
						if d > x.MaxDev {
							break
						}
						x.Deviated++
					}
					for i, w := range site.Wires {
						x.assign(w, f.FromBig(cand[i]))
					}
					x.Edges++
					x.dfs(ci, d, k > 0)
					x.undo(mark)
					if x.stop {
						return
					}
				}
				return
			}
		}
		if n == 1 {
			l0, l1 := x.split(c.L, u1)
			r0, r1 := x.split(c.R, u1)
			o0, o1 := x.split(c.O, u1)
			q2 := f.Mul(l1, r1)
			q1 := f.Sub(f.Add(f.Mul(l0, r1), f.Mul(l1, r0)), o1)
			q0 := f.Sub(f.Mul(l0, r0), o0)
			if f.IsZero(q2) {
				if f.IsZero(q1) {
					if !f.IsZero(q0) {
						return // dead whatever the wire is
					}
					ci++ // wire not constrained here; leave it open
					continue
				}
				x.assign(u1, f.Neg(f.Mul(q0, f.Inv(q1))))
				x.Forced++
				x.Edges++
				ci++
				continue
			}
			// quadratic in one wire: at most two roots
			var roots []T
			if f.Small() {
				for i := uint64(0); i < f.P().Uint64(); i++ {
					v := f.Enum(i)
					if f.IsZero(f.Add(f.Add(f.Mul(q2, f.Mul(v, v)), f.Mul(q1, v)), q0)) {
						roots = append(roots, v)
					}
				}
			} else {
				four := f.FromBig(big.NewInt(4))
				two := f.FromBig(big.NewInt(2))
				disc := f.Sub(f.Mul(q1, q1), f.Mul(four, f.Mul(q2, q0)))
				if sq, ok := f.Sqrt(disc); ok {
					den := f.Inv(f.Mul(two, q2))
					r1 := f.Mul(f.Sub(sq, q1), den)
					r2 := f.Mul(f.Sub(f.Neg(sq), q1), den)
					roots = append(roots, r1)
					if !f.Eq(r1, r2) {
						roots = append(roots, r2)
					}
				}
			}
			if len(roots) == 0 {
				return
			}
			if len(roots) > 1 {
				x.Branches++
			}
			mark := len(x.trail)
			for k, v := range roots {
				x.assign(u1, v)
				x.Edges++
				x.dfs(ci+1, dev, pendingDeviation || (k > 0 && false))
				x.undo(mark)
				if x.stop {
					return
				}
			}
			return
		}
		// two or more open wires: branch on the lowest one over the whole field
		_ = u2
		if !f.Small() {
			x.Err = fmt.Errorf("constraint %d has %d open non-hint wires on a field that cannot be enumerated", ci, n)
			x.stop = true
			return
		}
		x.Branches++
		mark := len(x.trail)
		p := f.P().Uint64()
		for i := uint64(0); i < p; i++ {
			x.assign(u1, f.Enum(i))
			x.Edges++
			x.dfs(ci, dev, true)
			x.undo(mark)
			if x.stop {
				return
			}
		}
		return
	}
	// all constraints processed and satisfied
	full := make([]T, len(x.w))
	for i := range full {
		if x.set[i] {
			full[i] = x.w[i]
		} else {
			full[i] = f.Zero()
		}
	}
	if bad := s.Check(full); bad >= 0 {
		x.Err = fmt.Errorf("internal: accepting state violates constraint %d", bad)
		x.stop = true
		return
	}
	if !x.onAccept(full) {
		x.stop = true
	}
}
