package r1csmc

import (
	"math/big"
	"strings"

	"github.com/consensys/gnark/backend/hint"
)

var registry = map[string]hint.Function{}

func init() {
	for _, f := range hint.GetRegistered() {
		registry[hint.Name(f)] = f
	}
}

func honest(site *HintSite, inputs []*big.Int, p *big.Int) []*big.Int {
	f, ok := registry[site.Name]
	if !ok {
		// hints registered after init (package init order): refresh once
		for _, g := range hint.GetRegistered() {
			registry[hint.Name(g)] = g
		}
		f, ok = registry[site.Name]
		if !ok {
			return nil
		}
	}
	out := make([]*big.Int, len(site.Wires))
	for i := range out {
		out[i] = new(big.Int)
	}
	in := make([]*big.Int, len(inputs))
	for i := range in {
		in[i] = new(big.Int).Set(inputs[i])
	}
	if err := f(p, in, out); err != nil {
		return nil
	}
	for i := range out {
		out[i].Mod(out[i], p)
	}
	return out
}

func bitsOf(v *big.Int, n int) []*big.Int {
	out := make([]*big.Int, n)
	for i := range out {
		out[i] = big.NewInt(int64(v.Bit(i)))
	}
	return out
}

// AdversaryPolicy: honest answer first; then, for bit-decomposition sites, the
// complete set of other boolean solutions of sum(b_i 2^i) = v (mod p) with n
// digits (v + k*p < 2^n, k >= 1) plus recomposition-preserving non-boolean digit
// vectors at the given positions; for InvZero sites {0, 1, honest+1}.
func AdversaryPolicy(nonBoolPositions []int) Policy {
	return func(site *HintSite, _ int, inputs []*big.Int, p *big.Int) [][]*big.Int {
		h := honest(site, inputs, p)
		if h == nil {
			return nil
		}
		cands := [][]*big.Int{h}
		switch {
		case strings.HasSuffix(site.Name, ".NBits"):
			n := len(site.Wires)
			v := inputs[0]
			lim := new(big.Int).Lsh(big.NewInt(1), uint(n))
			for k := int64(1); ; k++ {
				alt := new(big.Int).Add(v, new(big.Int).Mul(big.NewInt(k), p))
				if alt.Cmp(lim) >= 0 {
					break
				}
				cands = append(cands, bitsOf(alt, n))
				if k > 64 {
					break
				}
			}
			for _, pos := range nonBoolPositions {
				if pos+1 >= n {
					continue
				}
				alt := make([]*big.Int, n)
				for i := range alt {
					alt[i] = new(big.Int).Set(h[i])
				}
				alt[pos].Add(alt[pos], big.NewInt(2))
				alt[pos+1].Sub(alt[pos+1], big.NewInt(1))
				alt[pos+1].Mod(alt[pos+1], p)
				cands = append(cands, alt)
			}
		case strings.HasSuffix(site.Name, ".InvZero"):
			for _, a := range []*big.Int{big.NewInt(0), big.NewInt(1), new(big.Int).Mod(new(big.Int).Add(h[0], big.NewInt(1)), p)} {
				if a.Cmp(h[0]) != 0 {
					cands = append(cands, []*big.Int{a})
				}
			}
		}
		return cands
	}
}
