// Package r1csmc is an explicit-state search over a compiled R1CS: the state is a
// partial wire assignment, transitions are forced propagation or adversary
// choices for wires the constraints do not force, dead states have a violated
// constraint, accepting states satisfy everything. It has its own evaluator for
// A.w * B.w = C.w and reads gnark's system only through GetConstraints(),
// CoeffToString, MHints and the wire name lists.
package r1csmc

import (
	"math/big"

	"github.com/consensys/gnark-crypto/ecc/bn254/fr"
)

type Ops[T any] interface {
	P() *big.Int
	Zero() T
	One() T
	Add(a, b T) T
	Sub(a, b T) T
	Mul(a, b T) T
	Neg(a T) T
	Inv(a T) T
	IsZero(a T) bool
	Eq(a, b T) bool
	FromBig(x *big.Int) T
	ToBig(a T) *big.Int
	Sqrt(a T) (T, bool)
	Small() bool // whole field can be enumerated
	Enum(i uint64) T
}

// ---- small prime field on uint64 --------------------------------------------

type Small struct{ p uint64 }

func NewSmall(p uint64) Small           { return Small{p} }
func (s Small) P() *big.Int             { return new(big.Int).SetUint64(s.p) }
func (s Small) Zero() uint64            { return 0 }
func (s Small) One() uint64             { return 1 % s.p }
func (s Small) Add(a, b uint64) uint64  { return (a + b) % s.p }
func (s Small) Sub(a, b uint64) uint64  { return (a + s.p - b) % s.p }
func (s Small) Mul(a, b uint64) uint64  { return (a * b) % s.p }
func (s Small) Neg(a uint64) uint64     { return (s.p - a) % s.p }
func (s Small) IsZero(a uint64) bool    { return a == 0 }
func (s Small) Eq(a, b uint64) bool     { return a == b }
func (s Small) Small() bool             { return true }
func (s Small) Enum(i uint64) uint64    { return i % s.p }
func (s Small) ToBig(a uint64) *big.Int { return new(big.Int).SetUint64(a) }
func (s Small) FromBig(x *big.Int) uint64 {
	return new(big.Int).Mod(x, s.P()).Uint64()
}
func (s Small) Inv(a uint64) uint64 {
	// Fermat
	r, e, b := uint64(1), s.p-2, a%s.p
	for e > 0 {
		if e&1 == 1 {
			r = r * b % s.p
		}
		b = b * b % s.p
		e >>= 1
	}
	return r
}
func (s Small) Sqrt(a uint64) (uint64, bool) {
	for x := uint64(0); x < s.p; x++ {
		if x*x%s.p == a {
			return x, true
		}
	}
	return 0, false
}

// ---- BN254 scalar field -----------------------------------------------------

type BN struct{}

func (BN) P() *big.Int                        { return fr.Modulus() }
func (BN) Zero() fr.Element                   { return fr.Element{} }
func (BN) One() fr.Element                    { return fr.One() }
func (BN) Add(a, b fr.Element) (r fr.Element) { r.Add(&a, &b); return }
func (BN) Sub(a, b fr.Element) (r fr.Element) { r.Sub(&a, &b); return }
func (BN) Mul(a, b fr.Element) (r fr.Element) { r.Mul(&a, &b); return }
func (BN) Neg(a fr.Element) (r fr.Element)    { r.Neg(&a); return }
func (BN) Inv(a fr.Element) (r fr.Element)    { r.Inverse(&a); return }
func (BN) IsZero(a fr.Element) bool           { return a.IsZero() }
func (BN) Eq(a, b fr.Element) bool            { return a.Equal(&b) }
func (BN) Small() bool                        { return false }
func (BN) Enum(i uint64) (r fr.Element)       { r.SetUint64(i); return }
func (BN) FromBig(x *big.Int) (r fr.Element)  { r.SetBigInt(x); return }
func (BN) ToBig(a fr.Element) *big.Int        { return a.BigInt(new(big.Int)) }
func (BN) Sqrt(a fr.Element) (fr.Element, bool) {
	var r fr.Element
	if r.Sqrt(&a) == nil {
		return r, false
	}
	return r, true
}
