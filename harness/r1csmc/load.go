package r1csmc

import (
	"fmt"
	"math/big"

	"github.com/consensys/gnark-crypto/ecc"
	"github.com/consensys/gnark-crypto/ecc/bn254/fr"
	"github.com/consensys/gnark/constraint"
	csbn "github.com/consensys/gnark/constraint/bn254"
	cstiny "github.com/consensys/gnark/constraint/tinyfield"
	"github.com/consensys/gnark/frontend"
	"github.com/consensys/gnark/frontend/cs/r1cs"
)

const TinyP = 47

// CompileTiny compiles a circuit over gnark's 47-element field and loads it.
func CompileTiny(c frontend.Circuit) (*Sys[uint64, Small], error) {
	ccs, err := frontend.Compile(big.NewInt(TinyP), r1cs.NewBuilder, c, frontend.IgnoreUnconstrainedInputs())
	if err != nil {
		return nil, err
	}
	t, ok := ccs.(*cstiny.R1CS)
	if !ok {
		return nil, fmt.Errorf("unexpected constraint system type %T", ccs)
	}
	return Load[uint64, Small](NewSmall(TinyP), t, &t.System)
}

// LoadBN loads a BN254 system compiled by the repository's own code paths.
func LoadBN(ccs constraint.ConstraintSystem) (*Sys[fr.Element, BN], error) {
	t, ok := ccs.(*csbn.R1CS)
	if !ok {
		return nil, fmt.Errorf("unexpected constraint system type %T", ccs)
	}
	return Load[fr.Element, BN](BN{}, t, &t.System)
}

func CompileBN(c frontend.Circuit) (*Sys[fr.Element, BN], constraint.ConstraintSystem, error) {
	ccs, err := frontend.Compile(ecc.BN254.ScalarField(), r1cs.NewBuilder, c, frontend.IgnoreUnconstrainedInputs())
	if err != nil {
		return nil, nil, err
	}
	s, err := LoadBN(ccs)
	return s, ccs, err
}
