module verif/harness

go 1.23

require (
	github.com/consensys/gnark v0.8.0
	github.com/consensys/gnark-crypto v0.9.1
	github.com/iden3/go-iden3-crypto v0.0.13
	github.com/reilabs/gnark-lean-extractor/v2 v2.1.0
	github.com/rs/zerolog v1.29.0
	golang.org/x/crypto v0.25.0
	worldcoin/gnark-mbu v0.0.0
)

require (
	github.com/aws/aws-sdk-go-v2 v1.33.0 // indirect
	github.com/aws/aws-sdk-go-v2/aws/protocol/eventstream v1.6.7 // indirect
	github.com/aws/aws-sdk-go-v2/config v1.29.1 // indirect
	github.com/aws/aws-sdk-go-v2/credentials v1.17.54 // indirect
	github.com/aws/aws-sdk-go-v2/feature/ec2/imds v1.16.24 // indirect
	github.com/aws/aws-sdk-go-v2/feature/s3/manager v1.17.53 // indirect
	github.com/aws/aws-sdk-go-v2/internal/configsources v1.3.28 // indirect
	github.com/aws/aws-sdk-go-v2/internal/endpoints/v2 v2.6.28 // indirect
	github.com/aws/aws-sdk-go-v2/internal/ini v1.8.1 // indirect
	github.com/aws/aws-sdk-go-v2/internal/v4a v1.3.28 // indirect
	github.com/aws/aws-sdk-go-v2/service/internal/accept-encoding v1.12.1 // indirect
	github.com/aws/aws-sdk-go-v2/service/internal/checksum v1.5.2 // indirect
	github.com/aws/aws-sdk-go-v2/service/internal/presigned-url v1.12.9 // indirect
	github.com/aws/aws-sdk-go-v2/service/internal/s3shared v1.18.9 // indirect
	github.com/aws/aws-sdk-go-v2/service/s3 v1.74.0 // indirect
	github.com/aws/aws-sdk-go-v2/service/sso v1.24.11 // indirect
	github.com/aws/aws-sdk-go-v2/service/ssooidc v1.28.10 // indirect
	github.com/aws/aws-sdk-go-v2/service/sts v1.33.9 // indirect
	github.com/aws/smithy-go v1.22.1 // indirect
	github.com/blang/semver/v4 v4.0.0 // indirect
	github.com/consensys/bavard v0.1.13 // indirect
	github.com/davecgh/go-spew v1.1.2-0.20180830191138-d8f796af33cc // indirect
	github.com/fxamacker/cbor/v2 v2.4.0 // indirect
	github.com/google/pprof v0.0.0-20230817174616-7a8ec2ada47b // indirect
	github.com/mattn/go-colorable v0.1.13 // indirect
	github.com/mattn/go-isatty v0.0.20 // indirect
	github.com/mitchellh/copystructure v1.2.0 // indirect
	github.com/mitchellh/reflectwalk v1.0.2 // indirect
	github.com/mmcloughlin/addchain v0.4.0 // indirect
	github.com/pmezard/go-difflib v1.0.1-0.20181226105442-5d4384ee4fb2 // indirect
	github.com/stretchr/testify v1.9.0 // indirect
	github.com/x448/float16 v0.8.4 // indirect
	golang.org/x/exp v0.0.0-20230905200255-921286631fa9 // indirect
	golang.org/x/sys v0.23.0 // indirect
	gopkg.in/yaml.v3 v3.0.1 // indirect
	rsc.io/tmplfunc v0.0.3 // indirect
)

replace worldcoin/gnark-mbu => /repo
