#!/usr/bin/env python3
"""Generate a patched copy of $GOROOT/src/runtime/map.go in which the random start
position of every map iteration is taken from the environment variable
VERIF_MAPSEED (when set), and write the go build overlay file.
usage: patch.py <goroot> <outdir>   -> writes <outdir>/map.go and <outdir>/overlay.json
Exits 3 (feature unavailable) when the anchors are not found in the installed Go."""
import json, os, re, sys
goroot, out = sys.argv[1], sys.argv[2]
src = os.path.join(goroot, 'src', 'runtime', 'map.go')
s = open(src).read()
a1 = '\tr := uintptr(rand())\n'
if s.count(a1) != 1 or 'func mapiterinit(' not in s:
    print('anchor not found in', src); sys.exit(3)
s = s.replace(a1, a1 + '\tif seed, on := verifMapSeed(); on {\n\t\tr = seed\n\t}\n\tverifMapIters++\n\tif h.B > verifMapMaxB {\n\t\tverifMapMaxB = h.B\n\t}\n')
a2 = '\tr := int(rand())\n'
s = s.replace(a2, a2 + '\tif seed, on := verifMapSeed(); on {\n\t\tr = int(seed)\n\t}\n')
s += '''
// ---- verif: owned map-iteration order (added by /verif/harness/maporder/patch.py) ----
var (
	verifMapInit  bool
	verifMapOn    bool
	verifMapR     uintptr
	verifMapIters uint64
	verifMapMaxB  uint8
)

func verifMapSeed() (uintptr, bool) {
	if !verifMapInit {
		if envs == nil {
			return 0, false
		}
		v := gogetenv("VERIF_MAPSEED")
		if v != "" {
			var n uintptr
			for i := 0; i < len(v); i++ {
				if v[i] < '0' || v[i] > '9' {
					break
				}
				n = n*10 + uintptr(v[i]-'0')
			}
			verifMapR, verifMapOn = n, true
		}
		verifMapInit = true
	}
	return verifMapR, verifMapOn
}

// VerifMapStats reports how many map iterations started and the largest B (log2 buckets) met.
func VerifMapStats() (iters uint64, maxB uint8, on bool) {
	return verifMapIters, verifMapMaxB, verifMapOn
}
'''
os.makedirs(out, exist_ok=True)
open(os.path.join(out, 'map.go'), 'w').write(s)
json.dump({'Replace': {src: os.path.join(out, 'map.go')}}, open(os.path.join(out, 'overlay.json'), 'w'))
print('patched', src)
