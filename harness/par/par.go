package par

import (
	"os"
	"runtime"
	"strconv"
	"sync"
	"sync/atomic"
)

// For runs f(i) for i in [0,n) on all cores; stop() is polled between items.
func For(n int, f func(i int), stop func() bool) (done int) {
	w := runtime.NumCPU()
	// VERIF_PAR_WORKERS=1 runs the sequential phases on one goroutine (used to see whether a concurrency
	// defect is found by the scheduler phases rather than by the free-running case runner)
	if v, err := strconv.Atoi(os.Getenv("VERIF_PAR_WORKERS")); err == nil && v > 0 {
		w = v
	}
	if w > n {
		w = n
	}
	var next, cnt int64
	var wg sync.WaitGroup
	for k := 0; k < w; k++ {
		wg.Add(1)
		go func() {
			defer wg.Done()
			for {
				if stop != nil && stop() {
					return
				}
				i := int(atomic.AddInt64(&next, 1) - 1)
				if i >= n {
					return
				}
				f(i)
				atomic.AddInt64(&cnt, 1)
			}
		}()
	}
	wg.Wait()
	return int(cnt)
}
