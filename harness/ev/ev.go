// Package ev is the output contract shared by all checks: tier/seed handling,
// evidence file, VIOLATION / KNOWN-FINDING lines, replay files, exit status.
package ev

import (
	"encoding/json"
	"flag"
	"fmt"
	"os"
	"path/filepath"
	"sort"
	"strconv"
	"strings"
	"sync"
	"time"
)

var VerifDir = envOr("VERIF_DIR", "/verif")
var RepoDir = envOr("VERIF_REPO", "/repo")

func envOr(k, d string) string {
	if v := os.Getenv(k); v != "" {
		return v
	}
	return d
}

type Finding struct {
	Property string `json:"property"`
	Key      string `json:"key"`
	What     string `json:"what"`
	Commit   string `json:"commit,omitempty"`
}

type findingsFile struct {
	Known []Finding `json:"known"`
	Fixed []Finding `json:"fixed"`
}

type Ctx struct {
	ID       string
	Level    string
	Tier     string
	Seed     int64
	Replay   string
	Deadline time.Time // internal budget; after it, checks stop expanding and report exhaustive:false

	mu         sync.Mutex
	cov        map[string]any
	samples    []any
	assume     []string
	violations []violation
	known      map[string]Finding
	knownHit   map[string]bool
	start      time.Time
	capped     []string
}

type violation struct {
	Key    string
	What   string
	Replay any
}

func (c *Ctx) Quick() bool { return c.Tier != "thorough" }

// Expired reports whether the internal budget is used up; callers must record a cap.
func (c *Ctx) Expired() bool { return time.Now().After(c.Deadline) }

func (c *Ctx) Cap(what string) {
	c.mu.Lock()
	defer c.mu.Unlock()
	for _, x := range c.capped {
		if x == what {
			return
		}
	}
	c.capped = append(c.capped, what)
}

func (c *Ctx) Set(k string, v any) {
	c.mu.Lock()
	c.cov[k] = v
	c.mu.Unlock()
}

func (c *Ctx) Add(k string, n int64) {
	c.mu.Lock()
	old, _ := c.cov[k].(int64)
	c.cov[k] = old + n
	c.mu.Unlock()
}

func (c *Ctx) Get(k string) int64 {
	c.mu.Lock()
	defer c.mu.Unlock()
	v, _ := c.cov[k].(int64)
	return v
}

func (c *Ctx) Sample(s any) {
	c.mu.Lock()
	if len(c.samples) < 12 {
		c.samples = append(c.samples, s)
	}
	c.mu.Unlock()
}

func (c *Ctx) Assume(s string) { c.mu.Lock(); c.assume = append(c.assume, s); c.mu.Unlock() }

// Violation records a property violation identified by key (the specific failing
// input / call site / history). Known findings are matched on key prefix.
func (c *Ctx) Violation(key, what string, replay any) {
	c.mu.Lock()
	defer c.mu.Unlock()
	for k, f := range c.known {
		if key == k || strings.HasPrefix(key, k+"|") {
			if !c.knownHit[k] {
				c.knownHit[k] = true
				fmt.Printf("KNOWN-FINDING: property=%s %s [%s]\n", c.ID, f.What, k)
			}
			return
		}
	}
	for _, v := range c.violations {
		if v.Key == key {
			return
		}
	}
	c.violations = append(c.violations, violation{key, what, replay})
}

func (c *Ctx) NViolations() int { c.mu.Lock(); defer c.mu.Unlock(); return len(c.violations) }

func (c *Ctx) Logf(f string, a ...any) {
	fmt.Fprintf(os.Stderr, "[%s %6.1fs] %s\n", c.ID, time.Since(c.start).Seconds(), fmt.Sprintf(f, a...))
}

// HarnessError: the machinery itself is broken (not a property verdict). Exit 2.
func (c *Ctx) HarnessError(f string, a ...any) {
	fmt.Fprintf(os.Stderr, "HARNESS-ERROR property=%s %s\n", c.ID, fmt.Sprintf(f, a...))
	if c.NViolations() > 0 {
		// violations already established are reported; the later breakdown of the machinery
		// (often a consequence of the same defect) must not hide them
		c.Cap("stopped by a harness error after the first violations")
		c.finish(true)
	}
	os.Exit(2)
}

// Main parses flags, runs body (or replay), writes evidence, prints verdict, exits.
func Main(id, level string, budgetQuick, budgetThorough time.Duration, body func(c *Ctx), replay func(c *Ctx, raw json.RawMessage)) {
	tier := flag.String("tier", envOr("VERIF_TIER", "quick"), "quick|thorough")
	rp := flag.String("replay", "", "replay file")
	flag.Parse()
	seed, _ := strconv.ParseInt(envOr("VERIF_SEED", "1"), 10, 64)
	c := &Ctx{ID: id, Level: level, Tier: *tier, Seed: seed, Replay: *rp, cov: map[string]any{}, known: map[string]Finding{}, knownHit: map[string]bool{}, start: time.Now()}
	if c.Tier != "thorough" {
		c.Tier = "quick"
	}
	b := budgetQuick
	if !c.Quick() {
		b = budgetThorough
	}
	if s := os.Getenv("VERIF_BUDGET_S"); s != "" {
		if n, err := strconv.Atoi(s); err == nil {
			b = time.Duration(n) * time.Second
		}
	}
	c.Deadline = c.start.Add(b)
	var ff findingsFile
	if raw, err := os.ReadFile(filepath.Join(VerifDir, "known_findings.json")); err == nil {
		if err := json.Unmarshal(raw, &ff); err != nil {
			c.HarnessError("known_findings.json: %v", err)
		}
	}
	for _, f := range ff.Known {
		if f.Property == id {
			c.known[f.Key] = f
		}
	}
	if *rp != "" {
		raw, err := os.ReadFile(*rp)
		if err != nil {
			c.HarnessError("replay: %v", err)
		}
		var doc struct {
			Property string          `json:"property"`
			Case     json.RawMessage `json:"case"`
		}
		if err := json.Unmarshal(raw, &doc); err != nil {
			c.HarnessError("replay: %v", err)
		}
		if replay == nil {
			c.HarnessError("no replay handler")
		}
		replay(c, doc.Case)
		c.finish(false)
		return
	}
	body(c)
	c.finish(true)
}

func (c *Ctx) finish(writeEvidence bool) {
	wall := time.Since(c.start).Seconds()
	sort.Slice(c.violations, func(i, j int) bool { return c.violations[i].Key < c.violations[j].Key })
	os.MkdirAll(filepath.Join(VerifDir, "replays"), 0o755)
	for i, v := range c.violations {
		if i >= 5 {
			break
		}
		p := filepath.Join(VerifDir, "replays", fmt.Sprintf("%s-%d.json", c.ID, i))
		doc := map[string]any{"property": c.ID, "key": v.Key, "what": v.What, "case": v.Replay}
		raw, _ := json.MarshalIndent(doc, "", " ")
		os.WriteFile(p, raw, 0o644)
		fmt.Printf("VIOLATION property=%s replay=%s\n", c.ID, p)
		fmt.Printf("  key=%s\n  what=%s\n", v.Key, v.What)
	}
	if writeEvidence {
		cov := c.cov
		if len(c.samples) > 0 {
			cov["samples"] = c.samples
		}
		if len(c.capped) > 0 {
			cov["caps_hit"] = c.capped
			cov["exhaustive"] = false
		}
		var kh []string
		for k := range c.knownHit {
			kh = append(kh, k)
		}
		sort.Strings(kh)
		if len(kh) > 0 {
			cov["known_findings_reproduced"] = kh
		}
		e := map[string]any{
			"property_id": c.ID, "tier": c.Tier, "seed": c.Seed, "level": c.Level,
			"coverage": cov, "assumptions": c.assume, "wall_s": wall, "violations": len(c.violations),
		}
		if c.assume == nil {
			e["assumptions"] = []string{}
		}
		raw, _ := json.MarshalIndent(e, "", " ")
		// runs against deliberately changed trees (seeded_run.sh, own_mutants.sh, seeded_matrix.py) must
		// not overwrite the evidence of the unchanged tree: they redirect it
		evDir := envOr("VERIF_EVIDENCE_DIR", filepath.Join(VerifDir, "evidence"))
		os.MkdirAll(evDir, 0o755)
		if err := os.WriteFile(filepath.Join(evDir, c.ID+".json"), raw, 0o644); err != nil {
			c.HarnessError("evidence: %v", err)
		}
	}
	fmt.Fprintf(os.Stderr, "[%s] done in %.1fs violations=%d\n", c.ID, wall, len(c.violations))
	if len(c.violations) > 0 {
		os.Exit(1)
	}
	os.Exit(0)
}

func (c *Ctx) CapsHit() []string {
	c.mu.Lock()
	defer c.mu.Unlock()
	return append([]string{}, c.capped...)
}
