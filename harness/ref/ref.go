// Package ref holds the boring reference models the checks compare the
// implementation against. Nothing here imports the repository's prover logic
// except the Poseidon constant tables (needed to define "the circomlib
// parameters" over small primes; on BN254 the oracle is iden3's implementation).
package ref

import (
	"encoding/binary"
	"math/big"
	"sync"

	"github.com/consensys/gnark/frontend"
	iden3 "github.com/iden3/go-iden3-crypto/poseidon"
	"golang.org/x/crypto/sha3"
	rp "worldcoin/gnark-mbu/prover/poseidon"
)

var R, _ = new(big.Int).SetString("21888242871839275222246405745257275088548364400416034343698204186575808495617", 10)

func B(x int64) *big.Int { return big.NewInt(x) }

func Pow2(k int) *big.Int { return new(big.Int).Lsh(big.NewInt(1), uint(k)) }

// Field is a prime field with a Poseidon instance.
type Field struct {
	P              *big.Int
	IsBN           bool
	c2, m2, c3, m3 [][]*big.Int
	once           sync.Once
	tab2           []*big.Int // H2 table for tiny fields
}

func toBig(v frontend.Variable, p *big.Int) *big.Int {
	switch x := v.(type) {
	case big.Int:
		return new(big.Int).Mod(&x, p)
	case *big.Int:
		return new(big.Int).Mod(x, p)
	}
	panic("unexpected constant type")
}

func conv(t [][]frontend.Variable, p *big.Int) [][]*big.Int {
	out := make([][]*big.Int, len(t))
	for i := range t {
		out[i] = make([]*big.Int, len(t[i]))
		for j := range t[i] {
			out[i][j] = toBig(t[i][j], p)
		}
	}
	return out
}

func NewField(p *big.Int) *Field {
	f := &Field{P: new(big.Int).Set(p), IsBN: p.Cmp(R) == 0}
	if !f.IsBN {
		f.c2, f.m2 = conv(rp.CONSTANTS_2, p), conv(rp.MDS_2, p)
		f.c3, f.m3 = conv(rp.CONSTANTS_3, p), conv(rp.MDS_3, p)
	}
	return f
}

var BN = NewField(R)

func (f *Field) Mod(x *big.Int) *big.Int { return new(big.Int).Mod(x, f.P) }

// textbook Poseidon: state (0, in...), 4 full, RP partial (S-box on element 0), 4 full; output state[0].
func (f *Field) textbook(in []*big.Int) *big.Int {
	t := len(in) + 1
	C, M, RP := f.c2, f.m2, 56
	if t == 3 {
		C, M, RP = f.c3, f.m3, 57
	}
	st := make([]*big.Int, t)
	st[0] = new(big.Int)
	for i, x := range in {
		st[i+1] = f.Mod(x)
	}
	pow5 := func(x *big.Int) *big.Int { return new(big.Int).Exp(x, big.NewInt(5), f.P) }
	for r := 0; r < 8+RP; r++ {
		for i := range st {
			st[i] = f.Mod(new(big.Int).Add(st[i], C[r][i]))
		}
		if r < 4 || r >= 4+RP {
			for i := range st {
				st[i] = pow5(st[i])
			}
		} else {
			st[0] = pow5(st[0])
		}
		ns := make([]*big.Int, t)
		for i := range ns {
			s := new(big.Int)
			for j := range st {
				s.Add(s, new(big.Int).Mul(st[j], M[i][j]))
			}
			ns[i] = f.Mod(s)
		}
		st = ns
	}
	return st[0]
}

func (f *Field) H1(a *big.Int) *big.Int {
	if f.IsBN {
		h, err := iden3.Hash([]*big.Int{f.Mod(a)})
		if err != nil {
			panic(err)
		}
		return h
	}
	return f.textbook([]*big.Int{a})
}

func (f *Field) H2(a, b *big.Int) *big.Int {
	if f.IsBN {
		h, err := iden3.Hash([]*big.Int{f.Mod(a), f.Mod(b)})
		if err != nil {
			panic(err)
		}
		return h
	}
	if f.P.BitLen() <= 9 {
		p := int(f.P.Int64())
		f.once.Do(func() {
			f.tab2 = make([]*big.Int, p*p)
			for i := 0; i < p; i++ {
				for j := 0; j < p; j++ {
					f.tab2[i*p+j] = f.textbook([]*big.Int{big.NewInt(int64(i)), big.NewInt(int64(j))})
				}
			}
		})
		return f.tab2[int(f.Mod(a).Int64())*p+int(f.Mod(b).Int64())]
	}
	return f.textbook([]*big.Int{a, b})
}

// Path folds leaf up the tree: bit i of index (LSB first) says whether the
// running node is the right child at level i.
func (f *Field) Path(leaf *big.Int, sib []*big.Int, index uint64) *big.Int {
	cur := f.Mod(leaf)
	for i, s := range sib {
		if (index>>uint(i))&1 == 1 {
			cur = f.H2(s, cur)
		} else {
			cur = f.H2(cur, s)
		}
	}
	return cur
}

// ---- dense tree, no caching -------------------------------------------------

type Tree struct {
	F      *Field
	Depth  int
	Leaves []*big.Int
}

func NewTree(f *Field, depth int) *Tree {
	t := &Tree{F: f, Depth: depth, Leaves: make([]*big.Int, 1<<uint(depth))}
	for i := range t.Leaves {
		t.Leaves[i] = new(big.Int)
	}
	return t
}

func (t *Tree) Clone() *Tree {
	n := &Tree{F: t.F, Depth: t.Depth, Leaves: make([]*big.Int, len(t.Leaves))}
	for i, l := range t.Leaves {
		n.Leaves[i] = new(big.Int).Set(l)
	}
	return n
}

func (t *Tree) levels() [][]*big.Int {
	lv := [][]*big.Int{t.Leaves}
	cur := t.Leaves
	for len(cur) > 1 {
		nx := make([]*big.Int, len(cur)/2)
		for i := range nx {
			nx[i] = t.F.H2(cur[2*i], cur[2*i+1])
		}
		lv = append(lv, nx)
		cur = nx
	}
	return lv
}

func (t *Tree) Root() *big.Int { lv := t.levels(); return lv[len(lv)-1][0] }

func (t *Tree) Proof(index int) []*big.Int {
	lv := t.levels()
	out := make([]*big.Int, t.Depth)
	for i := 0; i < t.Depth; i++ {
		out[i] = lv[i][(index>>uint(i))^1]
	}
	return out
}

func (t *Tree) Set(index int, v *big.Int) { t.Leaves[index] = t.F.Mod(v) }

// ---- sparse tree for deep depths -------------------------------------------

type Sparse struct {
	F      *Field
	Depth  int
	Leaves map[uint64]*big.Int
	empty  []*big.Int
}

func NewSparse(f *Field, depth int) *Sparse {
	s := &Sparse{F: f, Depth: depth, Leaves: map[uint64]*big.Int{}}
	s.empty = make([]*big.Int, depth+1)
	s.empty[0] = new(big.Int)
	for i := 1; i <= depth; i++ {
		s.empty[i] = f.H2(s.empty[i-1], s.empty[i-1])
	}
	return s
}

// node returns the value of the node at given level (0=leaf) and position, recomputed from scratch.
func (s *Sparse) node(level int, pos uint64) *big.Int {
	// does any leaf live below this node?
	any := false
	for k := range s.Leaves {
		if k>>uint(level) == pos {
			any = true
			break
		}
	}
	if !any {
		return s.empty[level]
	}
	if level == 0 {
		return s.Leaves[pos]
	}
	return s.F.H2(s.node(level-1, 2*pos), s.node(level-1, 2*pos+1))
}

func (s *Sparse) Root() *big.Int { return s.node(s.Depth, 0) }

func (s *Sparse) Proof(index uint64) []*big.Int {
	out := make([]*big.Int, s.Depth)
	for i := 0; i < s.Depth; i++ {
		out[i] = s.node(i, (index>>uint(i))^1)
	}
	return out
}

func (s *Sparse) Set(index uint64, v *big.Int) {
	if v.Sign() == 0 {
		delete(s.Leaves, index)
		return
	}
	s.Leaves[index] = s.F.Mod(v)
}

// ---- relations of the property statements ----------------------------------

// Insertion says whether (pre, start, comms, paths, post) is a valid append; all
// values are integers (field elements already reduced), start is the integer
// value of the field element (may be huge). Also returns the reference post root
// reached if all emptiness checks pass (nil otherwise).
func (f *Field) Insertion(depth int, pre, start *big.Int, comms []*big.Int, paths [][]*big.Int, post *big.Int) (bool, *big.Int) {
	run := f.Mod(pre)
	size := Pow2(depth)
	for i := range comms {
		idx := f.Mod(new(big.Int).Add(start, big.NewInt(int64(i)))) // the circuit adds in the field
		if idx.Cmp(size) >= 0 {
			return false, nil
		}
		if f.Path(new(big.Int), paths[i], idx.Uint64()).Cmp(run) != 0 {
			return false, nil
		}
		run = f.Path(comms[i], paths[i], idx.Uint64())
	}
	if post == nil {
		return false, run
	}
	return run.Cmp(f.Mod(post)) == 0, run
}

// Deletion: slots with index < 2^depth delete; [2^depth, 2^(depth+1)) padding; larger unprovable.
func (f *Field) Deletion(depth int, pre *big.Int, idx []*big.Int, items []*big.Int, paths [][]*big.Int, post *big.Int) (bool, *big.Int) {
	run := f.Mod(pre)
	size := Pow2(depth)
	size2 := Pow2(depth + 1)
	for i := range idx {
		ix := f.Mod(idx[i])
		if ix.Cmp(size2) >= 0 {
			return false, nil
		}
		if ix.Cmp(size) >= 0 {
			continue
		}
		if f.Path(items[i], paths[i], ix.Uint64()).Cmp(run) != 0 {
			return false, nil
		}
		run = f.Path(new(big.Int), paths[i], ix.Uint64())
	}
	if post == nil {
		return false, run
	}
	return run.Cmp(f.Mod(post)) == 0, run
}

// ---- packing and hashes ----------------------------------------------------

func pad32(x *big.Int) []byte {
	b := x.Bytes()
	if len(b) > 32 {
		panic("value wider than 256 bits")
	}
	out := make([]byte, 32)
	copy(out[32-len(b):], b)
	return out
}

func PackInsertion(start uint32, pre, post *big.Int, comms []*big.Int) []byte {
	var out []byte
	var b4 [4]byte
	binary.BigEndian.PutUint32(b4[:], start)
	out = append(out, b4[:]...)
	out = append(out, pad32(pre)...)
	out = append(out, pad32(post)...)
	for _, c := range comms {
		out = append(out, pad32(c)...)
	}
	return out
}

func PackDeletion(idx []uint32, pre, post *big.Int) []byte {
	var out []byte
	for _, i := range idx {
		var b4 [4]byte
		binary.BigEndian.PutUint32(b4[:], i)
		out = append(out, b4[:]...)
	}
	out = append(out, pad32(pre)...)
	out = append(out, pad32(post)...)
	return out
}

func Keccak256(msg []byte) []byte {
	h := sha3.NewLegacyKeccak256()
	h.Write(msg)
	return h.Sum(nil)
}

func SHA3_256(msg []byte) []byte {
	h := sha3.New256()
	h.Write(msg)
	return h.Sum(nil)
}

// KeccakInt is the 256-bit big-endian integer of the digest (not reduced).
func KeccakInt(msg []byte) *big.Int { return new(big.Int).SetBytes(Keccak256(msg)) }

// ---- Keccak-f[1600] with a reduced number of rounds (written from FIPS 202; the first `rounds`
// round constants are used, as a round-reduced instance of the same sponge) -------------------

var keccakRC = [24]uint64{
	0x0000000000000001, 0x0000000000008082, 0x800000000000808A, 0x8000000080008000,
	0x000000000000808B, 0x0000000080000001, 0x8000000080008081, 0x8000000000008009,
	0x000000000000008A, 0x0000000000000088, 0x0000000080008009, 0x000000008000000A,
	0x000000008000808B, 0x800000000000008B, 0x8000000000008089, 0x8000000000008003,
	0x8000000000008002, 0x8000000000000080, 0x000000000000800A, 0x800000008000000A,
	0x8000000080008081, 0x8000000000008080, 0x0000000080000001, 0x8000000080008008,
}

var keccakRot = [5][5]uint{{0, 36, 3, 41, 18}, {1, 44, 10, 45, 2}, {62, 6, 43, 15, 61}, {28, 55, 25, 21, 56}, {27, 20, 39, 8, 14}}

func keccakF(a *[5][5]uint64, rounds int) {
	rol := func(x uint64, n uint) uint64 { return x<<(n%64) | x>>((64-n%64)%64) }
	for r := 0; r < rounds; r++ {
		var c, d [5]uint64
		for x := 0; x < 5; x++ {
			c[x] = a[x][0] ^ a[x][1] ^ a[x][2] ^ a[x][3] ^ a[x][4]
		}
		for x := 0; x < 5; x++ {
			d[x] = c[(x+4)%5] ^ rol(c[(x+1)%5], 1)
		}
		for x := 0; x < 5; x++ {
			for y := 0; y < 5; y++ {
				a[x][y] ^= d[x]
			}
		}
		var b [5][5]uint64
		for x := 0; x < 5; x++ {
			for y := 0; y < 5; y++ {
				b[y][(2*x+3*y)%5] = rol(a[x][y], keccakRot[x][y])
			}
		}
		for x := 0; x < 5; x++ {
			for y := 0; y < 5; y++ {
				a[x][y] = b[x][y] ^ (^b[(x+1)%5][y] & b[(x+2)%5][y])
			}
		}
		a[0][0] ^= keccakRC[r]
	}
}

// KeccakReduced: sponge with rate 1088, the given domain byte (0x01 Keccak, 0x06 SHA-3), 32-byte output
// and a permutation of `rounds` rounds. rounds == 24 gives Keccak-256 / SHA3-256.
func KeccakReduced(msg []byte, rounds int, domain byte) []byte {
	const rate = 136
	p := append([]byte{}, msg...)
	p = append(p, domain)
	for len(p)%rate != 0 {
		p = append(p, 0)
	}
	p[len(p)-1] |= 0x80
	var a [5][5]uint64
	for off := 0; off < len(p); off += rate {
		for i := 0; i < rate/8; i++ {
			a[i%5][i/5] ^= binary.LittleEndian.Uint64(p[off+8*i:])
		}
		keccakF(&a, rounds)
	}
	out := make([]byte, 32)
	for i := 0; i < 4; i++ {
		binary.LittleEndian.PutUint64(out[8*i:], a[i%5][i/5])
	}
	return out
}
