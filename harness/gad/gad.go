// Package gad holds harness circuits that do nothing but call the repository's
// gadgets (through abstractor.Call, as the production circuits do) and expose the
// result as an extra input wire, so that engines can observe it.
package gad

import (
	"math/big"

	"github.com/consensys/gnark/frontend"
	"github.com/consensys/gnark/test"
	"github.com/reilabs/gnark-lean-extractor/v2/abstractor"
	"worldcoin/gnark-mbu/prover"
	"worldcoin/gnark-mbu/prover/keccak"
	"worldcoin/gnark-mbu/prover/poseidon"
)

type V = frontend.Variable

func Vars(n int) []V { return make([]V, n) }

func Vars2(n, m int) [][]V {
	out := make([][]V, n)
	for i := range out {
		out[i] = make([]V, m)
	}
	return out
}

// Solved runs the circuit in gnark's test engine (honest hints) over field p.
func Solved(shape, assignment frontend.Circuit, p *big.Int) error {
	return test.IsSolved(shape, assignment, p)
}

type InsRound struct {
	Index, Item, Prev, Out V
	Proof                  []V
	Depth                  int
}

func (c *InsRound) Define(api frontend.API) error {
	r := abstractor.Call(api, prover.InsertionRound{Index: c.Index, Item: c.Item, PrevRoot: c.Prev, Proof: c.Proof, Depth: c.Depth})
	api.AssertIsEqual(r, c.Out)
	return nil
}

type InsProof struct {
	Start, Pre, Out V
	IdComms         []V
	Proofs          [][]V
	Depth, Batch    int
}

func (c *InsProof) Define(api frontend.API) error {
	r := abstractor.Call(api, prover.InsertionProof{StartIndex: c.Start, PreRoot: c.Pre, IdComms: c.IdComms, MerkleProofs: c.Proofs, BatchSize: c.Batch, Depth: c.Depth})
	api.AssertIsEqual(r, c.Out)
	return nil
}

type DelRound struct {
	Root, Index, Item, Out V
	Proof                  []V
	Depth                  int
}

func (c *DelRound) Define(api frontend.API) error {
	r := abstractor.Call(api, prover.DeletionRound{Root: c.Root, Index: c.Index, Item: c.Item, MerkleProofs: c.Proof, Depth: c.Depth})
	api.AssertIsEqual(r, c.Out)
	return nil
}

type DelProof struct {
	Pre, Out     V
	Indices      []V
	IdComms      []V
	Proofs       [][]V
	Depth, Batch int
}

func (c *DelProof) Define(api frontend.API) error {
	r := abstractor.Call(api, prover.DeletionProof{DeletionIndices: c.Indices, PreRoot: c.Pre, IdComms: c.IdComms, MerkleProofs: c.Proofs, BatchSize: c.Batch, Depth: c.Depth})
	api.AssertIsEqual(r, c.Out)
	return nil
}

// ToRBE: ToReducedBigEndian; Out[i] must equal the i-th emitted bit.
type ToRBE struct {
	In   V
	Out  []V
	Size int
}

func (c *ToRBE) Define(api frontend.API) error {
	bits := abstractor.Call1(api, prover.ToReducedBigEndian{Variable: c.In, Size: c.Size})
	if len(bits) != len(c.Out) {
		// observable as unsatisfiable: emitted length differs from Size
		api.AssertIsEqual(0, 1)
		return nil
	}
	for i := range bits {
		api.AssertIsEqual(bits[i], c.Out[i])
	}
	return nil
}

// RMRC: ReducedModRCheck fed directly with input digits (little-endian).
type RMRC struct {
	In []V
}

func (c *RMRC) Define(api frontend.API) error {
	abstractor.CallVoid(api, prover.ReducedModRCheck{Input: c.In})
	return nil
}

type FromBBE struct {
	In  []V
	Out V
}

func (c *FromBBE) Define(api frontend.API) error {
	// make the digits boolean-constrained as the production caller (Keccak output) does
	r := abstractor.Call(api, prover.FromBinaryBigEndian{Variable: c.In})
	api.AssertIsEqual(r, c.Out)
	return nil
}

// BitSeq: a sequence of bit-encoding gadget calls on SHARED variables inside one circuit (F =
// FromBinaryBigEndian(In) must equal Val; T = ToReducedBigEndian(Val) must equal In bit by bit), after
// which the caller's bit string must still be the one it passed (InCopy carries the same witness values).
type BitSeq struct {
	In, InCopy []V
	Val        V
	Ops        string
}

func (c *BitSeq) Define(api frontend.API) error {
	for _, op := range c.Ops {
		switch op {
		case 'F':
			r := abstractor.Call(api, prover.FromBinaryBigEndian{Variable: c.In})
			api.AssertIsEqual(r, c.Val)
		case 'T':
			bits := abstractor.Call1(api, prover.ToReducedBigEndian{Variable: c.Val, Size: len(c.In)})
			if len(bits) != len(c.In) {
				api.AssertIsEqual(0, 1)
				return nil
			}
			for i := range bits {
				api.AssertIsEqual(bits[i], c.In[i])
			}
		}
	}
	for i := range c.In {
		api.AssertIsEqual(c.In[i], c.InCopy[i])
	}
	return nil
}

type Pos1 struct{ In, Out V }

func (c *Pos1) Define(api frontend.API) error {
	api.AssertIsEqual(abstractor.Call(api, poseidon.Poseidon1{In: c.In}), c.Out)
	return nil
}

// PosAbort: a definition that is aborted INSIDE the Poseidon gadget (second operand missing): the fault of a
// "fault, then reuse" history.
type PosAbort struct{ A V }

func (c *PosAbort) Define(api frontend.API) error {
	abstractor.Call(api, poseidon.Poseidon2{In1: c.A})
	return nil
}

type Pos2 struct{ A, B, Out V }

func (c *Pos2) Define(api frontend.API) error {
	api.AssertIsEqual(abstractor.Call(api, poseidon.Poseidon2{In1: c.A, In2: c.B}), c.Out)
	return nil
}

// PosSeq performs a sequence of Poseidon calls on the shared variables A, B inside
// one circuit; Ops[i] in {0:P2(A,B) 1:P2(B,A) 2:P2(A,A) 3:P1(A) 4:P1(B)}; Out[i]
// is the expected result of call i.
type PosSeq struct {
	A, B V
	Out  []V
	Ops  []int
}

func (c *PosSeq) Define(api frontend.API) error {
	for i, op := range c.Ops {
		var r V
		switch op {
		case 0:
			r = abstractor.Call(api, poseidon.Poseidon2{In1: c.A, In2: c.B})
		case 1:
			r = abstractor.Call(api, poseidon.Poseidon2{In1: c.B, In2: c.A})
		case 2:
			r = abstractor.Call(api, poseidon.Poseidon2{In1: c.A, In2: c.A})
		case 3:
			r = abstractor.Call(api, poseidon.Poseidon1{In: c.A})
		case 4:
			r = abstractor.Call(api, poseidon.Poseidon1{In: c.B})
		}
		api.AssertIsEqual(r, c.Out[i])
	}
	return nil
}

// Keccak: bits in (LSB first per byte), 256 bits out; SHA3 selects the 0x06 domain.
type Keccak struct {
	In   []V
	Out  []V
	SHA3 bool
}

func (c *Keccak) Define(api frontend.API) error {
	var h []V
	if c.SHA3 {
		h = keccak.NewSHA3_256(api, len(c.In), c.In...)
	} else {
		h = keccak.NewKeccak256(api, len(c.In), c.In...)
	}
	if len(h) != len(c.Out) {
		api.AssertIsEqual(0, 1)
		return nil
	}
	for i := range h {
		api.AssertIsEqual(h[i], c.Out[i])
	}
	return nil
}

// KeccakR: the sponge gadget instantiated directly with a chosen number of rounds and domain byte
// (same code path as NewKeccak256/NewSHA3_256, smaller permutation).
type KeccakR struct {
	In     []V
	Out    []V
	Rounds int
	Domain int
}

func (c *KeccakR) Define(api frontend.API) error {
	h := abstractor.Call1(api, keccak.KeccakGadget{InputSize: len(c.In), InputData: c.In, OutputSize: 256, Rounds: c.Rounds, BlockSize: 1088, RotationOffsets: keccak.R, RoundConstants: keccak.RC, Domain: c.Domain})
	if len(h) != len(c.Out) {
		api.AssertIsEqual(0, 1)
		return nil
	}
	for i := range h {
		api.AssertIsEqual(h[i], c.Out[i])
	}
	return nil
}
