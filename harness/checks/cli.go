package checks

import (
	"bytes"
	"fmt"
	"os"
	"os/exec"
	"path/filepath"
	"sync"
	"time"

	"verif/harness/ev"
)

var (
	binOnce sync.Once
	binPath string
	binErr  error
)

func scratchDir() string {
	d := os.Getenv("VERIF_SCRATCH")
	if d == "" {
		d, _ = os.MkdirTemp("", "verif-")
	}
	return d
}

// repoBinary builds the repository's CLI from the tree under check (once per run).
func repoBinary() (string, error) {
	binOnce.Do(func() {
		binPath = filepath.Join(scratchDir(), "gnark-mbu")
		cmd := exec.Command("go", "build", "-o", binPath, ".")
		cmd.Dir = ev.RepoDir
		cmd.Env = append(os.Environ(), "GOFLAGS=-mod=mod")
		out, err := cmd.CombinedOutput()
		if err != nil {
			binErr = fmt.Errorf("building %s: %v\n%s", ev.RepoDir, err, out)
		}
	})
	return binPath, binErr
}

type cliResult struct {
	Exit     int
	Stdout   []byte
	Stderr   []byte
	TimedOut bool
}

// runCLI runs the built binary; a generous deadline guards against hangs.
func runCLI(stdin []byte, timeout time.Duration, args ...string) (*cliResult, error) {
	bin, err := repoBinary()
	if err != nil {
		return nil, err
	}
	cmd := exec.Command(bin, args...)
	cmd.Dir = scratchDir()
	var so, se bytes.Buffer
	cmd.Stdout, cmd.Stderr = &so, &se
	if stdin != nil {
		cmd.Stdin = bytes.NewReader(stdin)
	}
	if err := cmd.Start(); err != nil {
		return nil, err
	}
	done := make(chan error, 1)
	go func() { done <- cmd.Wait() }()
	res := &cliResult{}
	select {
	case err = <-done:
	case <-time.After(timeout):
		cmd.Process.Kill()
		<-done
		res.TimedOut = true
	}
	res.Stdout, res.Stderr = so.Bytes(), se.Bytes()
	if cmd.ProcessState != nil {
		res.Exit = cmd.ProcessState.ExitCode()
	}
	return res, nil
}
