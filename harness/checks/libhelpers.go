package checks

import (
	"bytes"
	"encoding/json"
	"fmt"
	"math/big"

	"github.com/consensys/gnark-crypto/ecc"
	"github.com/consensys/gnark-crypto/ecc/bn254"
	"github.com/consensys/gnark/backend/groth16"
	"worldcoin/gnark-mbu/prover"

	"verif/harness/ev"
)

// libScenarios: the pure helpers of the response / hashing path, each called by two threads on
// different values (indices: 0 Proof.MarshalJSON, 1 Proof.UnmarshalJSON, 2/3 ComputeInputHash*,
// 4/5 parameter JSON round trips).
func libScenarios(c *ev.Ctx, which ...int) []pairScenario {
	_, _, g1, g2 := bn254.Generators()
	mkProof := func(a, b, cc int64) *prover.Proof {
		var A, C bn254.G1Affine
		var B bn254.G2Affine
		A.ScalarMultiplication(&g1, big.NewInt(a))
		B.ScalarMultiplication(&g2, big.NewInt(b))
		C.ScalarMultiplication(&g1, big.NewInt(cc))
		ra, rb, rc := A.RawBytes(), B.RawBytes(), C.RawBytes()
		raw := append(append(append([]byte{}, ra[:]...), rb[:]...), rc[:]...)
		gp := groth16.NewProof(ecc.BN254)
		if _, err := gp.ReadFrom(bytes.NewReader(raw)); err != nil {
			c.HarnessError("synthetic proof: %v", err)
		}
		return &prover.Proof{Proof: gp}
	}
	proofs := []*prover.Proof{mkProof(1, 1, 2), mkProof(3, 2, 5)}
	proofJSON := [][]byte{}
	for _, p := range proofs {
		js, err := independentProofJSON(p)
		if err != nil {
			c.HarnessError("synthetic proof JSON: %v", err)
		}
		proofJSON = append(proofJSON, js)
	}
	mkDel := func(i int) *prover.DeletionParameters {
		return &prover.DeletionParameters{DeletionIndices: []uint32{uint32(i), uint32(i + 2)}, PreRoot: *big.NewInt(int64(3000 + i)), PostRoot: *big.NewInt(int64(4000 + i)), IdComms: []big.Int{*big.NewInt(int64(5 + i)), *big.NewInt(int64(6 + i))}, MerkleProofs: [][]big.Int{{*big.NewInt(int64(i))}, {*big.NewInt(int64(i + 1))}}}
	}
	mkParams := func(k int64) *prover.InsertionParameters {
		return &prover.InsertionParameters{StartIndex: uint32(k), PreRoot: *big.NewInt(1000 + k), PostRoot: *big.NewInt(2000 + k), IdComms: []big.Int{*big.NewInt(7 * k), *big.NewInt(9 * k)}, MerkleProofs: [][]big.Int{{*big.NewInt(k)}, {*big.NewInt(k + 1)}}}
	}
	helpers := []struct {
		name string
		f    func(i int) string
	}{
		{"Proof.MarshalJSON", func(i int) string {
			js, err := json.Marshal(proofs[i])
			if err != nil {
				return "error: " + err.Error()
			}
			return string(js)
		}},
		{"Proof.UnmarshalJSON", func(i int) string {
			var back prover.Proof
			if err := json.Unmarshal(proofJSON[i], &back); err != nil {
				return "error: " + err.Error()
			}
			var buf bytes.Buffer
			back.Proof.WriteRawTo(&buf)
			return fmt.Sprintf("%x", buf.Bytes())
		}},
		{"ComputeInputHashInsertion", func(i int) string {
			p := mkParams(int64(i + 1))
			if err := p.ComputeInputHashInsertion(); err != nil {
				return "error: " + err.Error()
			}
			return p.InputHash.Text(16)
		}},
		{"ComputeInputHashDeletion", func(i int) string {
			d := mkDel(i)
			if err := d.ComputeInputHashDeletion(); err != nil {
				return "error: " + err.Error()
			}
			return d.InputHash.Text(16)
		}},
		{"InsertionParameters JSON round trip", func(i int) string {
			pj, err := json.Marshal(mkParams(int64(i + 1)))
			if err != nil {
				return "marshal error: " + err.Error()
			}
			var back prover.InsertionParameters
			if err := json.Unmarshal(pj, &back); err != nil {
				return "unmarshal error: " + err.Error()
			}
			return string(pj) + fmt.Sprintf("|%+v", back)
		}},
		{"DeletionParameters JSON round trip", func(i int) string {
			dj, err := json.Marshal(mkDel(i))
			if err != nil {
				return "marshal error: " + err.Error()
			}
			var back prover.DeletionParameters
			if err := json.Unmarshal(dj, &back); err != nil {
				return "unmarshal error: " + err.Error()
			}
			return string(dj) + fmt.Sprintf("|%+v", back)
		}},
	}
	var out []pairScenario
	for _, k := range which {
		out = append(out, pairScenario{Name: helpers[k].name, F: helpers[k].f})
	}
	return out
}

// independentProofJSON renders a proof document from gnark's struct fields without the repository's encoder.
func independentProofJSON(p *prover.Proof) ([]byte, error) {
	co, err := proofCoords(p.Proof)
	if err != nil {
		return nil, err
	}
	h := func(i int) string { return "0x" + co[i].Text(16) }
	return json.Marshal(map[string]any{"ar": []string{h(0), h(1)}, "bs": [][]string{{h(2), h(3)}, {h(4), h(5)}}, "krs": []string{h(6), h(7)}})
}
