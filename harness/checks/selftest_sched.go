//go:build verif

package checks

import (
	"fmt"
	"sort"
	"strings"

	"worldcoin/gnark-mbu/verifrt/vsched"
	"worldcoin/gnark-mbu/verifrt/vsync"
)

// schedSelfTest runs the explorer on four tiny programs with known answers; a wrong
// answer means the machinery cannot be trusted and aborts the check as a harness error.
func schedSelfTest() error {
	outcomes := func(bound int, fine, keys bool, body func()) (map[string]bool, []string, int64) {
		out := map[string]bool{}
		var fails []string
		e := &vsched.Explorer{Bound: bound, Fine: fine, UseKeys: keys, MaxSteps: 10000, Workers: 1,
			NewRun: func() (func(*vsched.Sched), func(), func(*vsched.Sched) *vsched.Failure) {
				return nil, body, func(s *vsched.Sched) *vsched.Failure {
					out[strings.Join(s.Obs, ",")] = true
					return nil
				}
			},
			OnFailure: func(_ []int, _ *vsched.Sched, f *vsched.Failure) { fails = append(fails, f.Kind) }}
		e.Explore()
		return out, fails, e.Execs
	}
	keysOf := func(m map[string]bool) string {
		var k []string
		for x := range m {
			k = append(k, x)
		}
		sort.Strings(k)
		return strings.Join(k, " | ")
	}
	// 1. lost update: read / (statement boundary) / write by two threads; needs one preemption
	lost := func() {
		x := 0
		done := vsched.NewChan[int](2)
		for i := 0; i < 2; i++ {
			vsched.GoNamed(fmt.Sprintf("w%d", i), func() {
				vsched.Yield("read")
				v := x
				vsched.Yield("write")
				x = v + 1
				done.Send(1)
			})
		}
		done.Recv()
		done.Recv()
		vsched.Observe("x=%d", x)
	}
	if o, _, _ := outcomes(0, true, false, lost); keysOf(o) != "x=2" {
		return fmt.Errorf("lost update, bound 0: outcomes %q, want only x=2", keysOf(o))
	}
	if o, _, _ := outcomes(1, true, false, lost); keysOf(o) != "x=1 | x=2" {
		return fmt.Errorf("lost update, bound 1: outcomes %q, want x=1 and x=2", keysOf(o))
	}
	// 2. deadlock: two mutexes taken in opposite order
	dead := func() {
		var a, b vsync.Mutex
		done := vsched.NewChan[int](2)
		vsched.GoNamed("t1", func() { a.Lock(); b.Lock(); b.Unlock(); a.Unlock(); done.Send(1) })
		vsched.GoNamed("t2", func() { b.Lock(); a.Lock(); a.Unlock(); b.Unlock(); done.Send(1) })
		done.Recv()
		done.Recv()
		vsched.Observe("ok")
	}
	if _, f, _ := outcomes(0, false, false, dead); len(f) != 0 {
		return fmt.Errorf("lock order inversion, bound 0: unexpected failure %v", f)
	}
	if _, f, _ := outcomes(1, false, false, dead); len(f) == 0 || f[0] != "deadlock" {
		return fmt.Errorf("lock order inversion, bound 1: deadlock not found (%v)", f)
	}
	// 3. select with two ready cases: both alternatives must be explored without any preemption
	sel := func() {
		a, b := vsched.NewChan[int](1), vsched.NewChan[int](1)
		a.Send(1)
		b.Send(2)
		ca, cb := vsched.RecvCase(a), vsched.RecvCase(b)
		switch vsched.Select(false, ca, cb) {
		case 0:
			vsched.Observe("a")
		case 1:
			vsched.Observe("b")
		}
	}
	if o, _, _ := outcomes(0, false, false, sel); keysOf(o) != "a | b" {
		return fmt.Errorf("select with two ready cases: outcomes %q, want a and b", keysOf(o))
	}
	// 4. pruned and unpruned unbounded searches see the same outcomes (3 threads, channel hand-offs)
	pipe := func() {
		c := vsched.NewChan[int](0)
		res := vsched.NewChan[string](3)
		for i := 0; i < 2; i++ {
			i := i
			vsched.GoNamed(fmt.Sprintf("p%d", i), func() { c.Send(i) })
		}
		vsched.GoNamed("q", func() { x := c.Recv(); y := c.Recv(); res.Send(fmt.Sprintf("%d%d", x, y)) })
		vsched.Observe("order=%s", res.Recv())
	}
	o1, _, n1 := outcomes(-1, false, false, pipe)
	o2, _, n2 := outcomes(-1, false, true, pipe)
	if keysOf(o1) != "order=01 | order=10" || keysOf(o1) != keysOf(o2) || n2 > n1 {
		return fmt.Errorf("pruned vs unpruned search disagree: %q (%d executions) vs %q (%d)", keysOf(o1), n1, keysOf(o2), n2)
	}
	return nil
}
