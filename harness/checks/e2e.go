package checks

import (
	"bytes"
	"fmt"
	"io"
	"net"
	"net/http"
	"os"
	"os/exec"
	"path/filepath"
	"strings"
	"sync"
	"syscall"
	"time"

	"verif/harness/ev"
)

// End-to-end drivers: the real binary built from the tree, real sockets, real signals.

type e2eServer struct {
	cmd            *exec.Cmd
	prover, metric string
	stderr         bytes.Buffer
	done           chan struct{}
	exit           int
}

func freeTCP() string {
	l, err := net.Listen("tcp", "127.0.0.1:0")
	if err != nil {
		panic(err)
	}
	defer l.Close()
	return l.Addr().String()
}

func canBind(addr string) bool {
	l, err := net.Listen("tcp", addr)
	if err != nil {
		return false
	}
	l.Close()
	return true
}

var keysMu sync.Mutex

// e2eKeys writes the (1,1) proving system of a mode to a scratch file (once per run).
func e2eKeys(mode string) (string, error) {
	keysMu.Lock()
	defer keysMu.Unlock()
	path := filepath.Join(scratchDir(), "e2e-"+mode+".ps")
	if _, err := os.Stat(path); err == nil {
		return path, nil
	}
	ps, err := getSystem(mode, 1, 1, 0)
	if err != nil {
		return "", err
	}
	f, err := os.Create(path)
	if err != nil {
		return "", err
	}
	defer f.Close()
	_, err = ps.WriteRawTo(f)
	return path, err
}

// startE2E starts `gnark-mbu start` on the given (or fresh) addresses and waits until both ports accept.
func startE2E(mode, pa, ma string) (*e2eServer, error) {
	bin, err := repoBinary()
	if err != nil {
		return nil, err
	}
	keys, err := e2eKeys(mode)
	if err != nil {
		return nil, err
	}
	if pa == "" {
		pa, ma = freeTCP(), freeTCP()
	}
	s := &e2eServer{prover: pa, metric: ma, done: make(chan struct{})}
	s.cmd = exec.Command(bin, "start", "--mode", mode, "--keys-file", keys, "--prover-address", pa, "--metrics-address", ma)
	s.cmd.Stderr = &s.stderr
	s.cmd.Stdout = &s.stderr
	if err := s.cmd.Start(); err != nil {
		return nil, err
	}
	go func() {
		s.cmd.Wait()
		if s.cmd.ProcessState != nil {
			s.exit = s.cmd.ProcessState.ExitCode()
		}
		close(s.done)
	}()
	deadline := time.Now().Add(3 * time.Minute)
	for _, a := range []string{pa, ma} {
		for {
			select {
			case <-s.done:
				return nil, fmt.Errorf("server exited during start-up (exit %d): %s", s.exit, tailStr(s.stderr.Bytes()))
			default:
			}
			if c, err := net.DialTimeout("tcp", a, time.Second); err == nil {
				c.Close()
				break
			}
			if time.Now().After(deadline) {
				s.cmd.Process.Kill()
				return nil, fmt.Errorf("server did not open %s", a)
			}
			time.Sleep(20 * time.Millisecond)
		}
	}
	return s, nil
}

// interrupt sends SIGINT and waits for the process; ok=false if it does not exit (liveness guard 3 min).
func (s *e2eServer) interrupt() (exit int, ok bool) {
	s.cmd.Process.Signal(syscall.SIGINT)
	select {
	case <-s.done:
		return s.exit, true
	case <-time.After(3 * time.Minute):
		s.cmd.Process.Kill()
		<-s.done
		return -1, false
	}
}

type e2eResp struct {
	Err    string
	Status int
	Body   []byte
}

func e2eDo(method, url string, body []byte) *e2eResp {
	cl := &http.Client{Transport: &http.Transport{DisableKeepAlives: true}, Timeout: 10 * time.Minute}
	req, err := http.NewRequest(method, url, bytes.NewReader(body))
	if err != nil {
		return &e2eResp{Err: err.Error()}
	}
	r, err := cl.Do(req)
	if err != nil {
		return &e2eResp{Err: err.Error()}
	}
	defer r.Body.Close()
	b, err := io.ReadAll(r.Body)
	if err != nil {
		return &e2eResp{Err: "truncated body: " + err.Error(), Status: r.StatusCode}
	}
	return &e2eResp{Status: r.StatusCode, Body: b}
}

func (r *e2eResp) class() string {
	if r.Err != "" {
		return "no response (" + r.Err + ")"
	}
	switch r.Status {
	case 200, 405:
		return fmt.Sprint(r.Status)
	}
	i := bytes.Index(r.Body, []byte(`"code":"`))
	if i < 0 {
		return fmt.Sprintf("%d without code", r.Status)
	}
	rest := r.Body[i+8:]
	j := bytes.IndexByte(rest, '"')
	return fmt.Sprintf("%d %s", r.Status, rest[:j])
}

// metricValue extracts one sample value from a text exposition (exact line prefix match).
func metricLines(body []byte, name string) map[string]string {
	out := map[string]string{}
	for _, line := range strings.Split(string(body), "\n") {
		if strings.HasPrefix(line, name+"{") && strings.Contains(line, `endpoint_pattern="/prove"`) {
			k := line[:strings.LastIndexByte(line, ' ')]
			out[k] = line[strings.LastIndexByte(line, ' ')+1:]
		}
	}
	return out
}

var _ = ev.RepoDir
