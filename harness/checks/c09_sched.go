//go:build verif

package checks

import (
	"bytes"
	"encoding/json"
	"fmt"
	"math/big"
	"strings"
	"sync"
	"time"

	"github.com/consensys/gnark-crypto/ecc"
	"github.com/consensys/gnark/backend/groth16"
	"verif/harness/ev"
	"verif/harness/ref"
	"worldcoin/gnark-mbu/prover"
	"worldcoin/gnark-mbu/server"
	"worldcoin/gnark-mbu/verifrt/vhttp"
	"worldcoin/gnark-mbu/verifrt/vsched"
)

type httpReq struct {
	Method string `json:"method"`
	Body   string `json:"body"`
	Why    string `json:"why,omitempty"`
}

// Bytes: the request body; "@repeat:<n>:<unit>" stands for <unit> repeated until n bytes (bodies of many
// megabytes are kept out of scenario and replay files this way).
func (r httpReq) Bytes() []byte {
	if strings.HasPrefix(r.Body, "@repeat:") {
		f := strings.SplitN(r.Body, ":", 3)
		n := 0
		fmt.Sscan(f[1], &n)
		if len(f) == 3 && len(f[2]) > 0 && n > 0 {
			return []byte(strings.Repeat(f[2], n/len(f[2])+1)[:n])
		}
	}
	return []byte(r.Body)
}

type c09Case struct {
	Mode string    `json:"mode"`
	D    int       `json:"depth"`
	B    int       `json:"batch"`
	Seq  []httpReq `json:"requests"`
}

func init() {
	Registry["C09"] = func() {
		ev.Main("C09", "model_checking", 300*time.Second, 40*time.Minute, c09Body, func(c *ev.Ctx, raw json.RawMessage) {
			var cs c09Case
			if err := json.Unmarshal(raw, &cs); err != nil {
				c.HarnessError("%v", err)
			}
			for _, m := range c09RunSeq(c, &cs, nil) {
				fmt.Println("replay:", m[0], m[1])
				c.Violation(m[0], m[1], cs)
			}
		})
	}
}

// withServer runs one scheduled execution: Run, wait until accepting, f, stop.
func withServer(mode string, ps *prover.ProvingSystem, f func(do func(method, path, addr string, body []byte) *vhttp.Response)) *vsched.Failure {
	setup := func(s *vsched.Sched) { vhttp.Install(s) }
	body := func() {
		cfg := server.Config{ProverAddress: proverAddr, MetricsAddress: metricsAddr, Mode: mode}
		inst := server.Run(&cfg, ps)
		vhttp.WaitAccepting(proverAddr)
		vhttp.WaitAccepting(metricsAddr)
		n := 0
		f(func(method, path, addr string, body []byte) *vhttp.Response {
			n++
			return vhttp.Do(fmt.Sprintf("r%d", n), addr, method, path, body)
		})
		inst.RequestStop()
		inst.AwaitStop()
	}
	s := vsched.Run(vsched.Config{MaxSteps: 1000000}, setup, body)
	vhttp.Uninstall(s)
	if s.Fail != nil {
		return s.Fail
	}
	// environment choices (e.g. a server deadline passing, if the tree under check sets one):
	// every single deviation is replayed; a request that then gets no response is reported by f's caller
	for i, p := range s.Points {
		if !strings.HasPrefix(p.Label, "choose:") {
			continue
		}
		for alt := 1; alt < len(p.Enabled); alt++ {
			prefix := make([]int, i+1)
			for k := 0; k < i; k++ {
				prefix[k] = s.Points[k].Chosen
			}
			prefix[i] = alt
			s2 := vsched.Run(vsched.Config{Prefix: prefix, MaxSteps: 1000000}, setup, body)
			vhttp.Uninstall(s2)
			if s2.Fail != nil {
				return s2.Fail
			}
		}
	}
	return nil
}

// ---- reference classification -------------------------------------------------

// refHTTP returns the set of acceptable outcomes for a request: "405", "400 malformed_body",
// "400 proving_error", "200"; several entries = the statement leaves the choice open.
func refHTTP(mode string, d, b int, method string, body []byte) []string {
	if method != "POST" {
		return []string{"405"}
	}
	if !json.Valid(body) {
		return []string{"400 malformed_body"}
	}
	any400 := []string{"400 malformed_body", "400 proving_error"}
	var top map[string]json.RawMessage
	trimmed := bytes.TrimSpace(body)
	if len(trimmed) == 0 || trimmed[0] != '{' {
		if string(trimmed) == "null" {
			return any400
		}
		return []string{"400 malformed_body"}
	}
	dec := json.NewDecoder(bytes.NewReader(body))
	if err := dec.Decode(&top); err != nil {
		return []string{"400 malformed_body"}
	}
	open := false // some aspect the statement does not pin down (missing field, null, odd notation)
	num := func(key string) (*big.Int, bool) {
		raw, ok := top[key]
		if !ok || string(raw) == "null" {
			open = true
			return nil, true
		}
		var s string
		if json.Unmarshal(raw, &s) != nil {
			return nil, false
		}
		k, v := refNumber(s)
		if k == 0 {
			return nil, false
		}
		if k < 0 {
			open = true
			return nil, true
		}
		return v, true
	}
	numList := func(raw json.RawMessage) ([]*big.Int, bool) {
		var ss []json.RawMessage
		if json.Unmarshal(raw, &ss) != nil {
			return nil, false
		}
		var out []*big.Int
		for _, r := range ss {
			var s string
			if string(r) == "null" {
				open = true
				out = append(out, nil)
				continue
			}
			if json.Unmarshal(r, &s) != nil {
				return nil, false
			}
			k, v := refNumber(s)
			if k == 0 {
				return nil, false
			}
			if k < 0 {
				open = true
			}
			out = append(out, v)
		}
		return out, true
	}
	u32 := func(raw json.RawMessage) (uint32, bool) {
		if t := bytes.TrimSpace(raw); len(t) == 0 || t[0] == '"' {
			return 0, false
		}
		var f json.Number
		dd := json.NewDecoder(bytes.NewReader(raw))
		dd.UseNumber()
		if dd.Decode(&f) != nil {
			return 0, false
		}
		if strings.ContainsAny(f.String(), ".eE") {
			if strings.ContainsAny(f.String(), "eE") {
				open = true
				return 0, true
			}
			return 0, false
		}
		v, ok := new(big.Int).SetString(f.String(), 10)
		if !ok || v.Sign() < 0 || v.BitLen() > 32 {
			return 0, false
		}
		return uint32(v.Uint64()), true
	}
	hash, ok1 := num("inputHash")
	pre, ok2 := num("preRoot")
	post, ok3 := num("postRoot")
	if !ok1 || !ok2 || !ok3 {
		return []string{"400 malformed_body"}
	}
	var comms []*big.Int
	if raw, ok := top["identityCommitments"]; ok && string(raw) != "null" {
		var okc bool
		if comms, okc = numList(raw); !okc {
			return []string{"400 malformed_body"}
		}
	} else {
		open = true
	}
	var proofs [][]*big.Int
	if raw, ok := top["merkleProofs"]; ok && string(raw) != "null" {
		var rows []json.RawMessage
		if json.Unmarshal(raw, &rows) != nil {
			return []string{"400 malformed_body"}
		}
		for _, r := range rows {
			if string(r) == "null" {
				open = true
				proofs = append(proofs, nil)
				continue
			}
			row, okr := numList(r)
			if !okr {
				return []string{"400 malformed_body"}
			}
			proofs = append(proofs, row)
		}
	} else {
		open = true
	}
	var start uint32
	var idx []uint32
	if mode == "insertion" {
		if raw, ok := top["startIndex"]; ok && string(raw) != "null" {
			var oku bool
			if start, oku = u32(raw); !oku {
				return []string{"400 malformed_body"}
			}
		} else {
			open = true
		}
	} else {
		if raw, ok := top["deletionIndices"]; ok && string(raw) != "null" {
			var rows []json.RawMessage
			if json.Unmarshal(raw, &rows) != nil {
				return []string{"400 malformed_body"}
			}
			for _, r := range rows {
				if string(r) == "null" {
					open = true
					idx = append(idx, 0)
					continue
				}
				v, oku := u32(r)
				if !oku {
					return []string{"400 malformed_body"}
				}
				idx = append(idx, v)
			}
		} else {
			open = true
		}
	}
	if open {
		// absent / null fields take defaults and under-specified notations are not pinned
		// down by the statement: any documented outcome is acceptable (a 200 must still verify)
		return append([]string{"200"}, any400...)
	}
	// well-formed document: dimensions and relation
	if len(comms) != b || len(proofs) != b || (mode == "deletion" && len(idx) != b) {
		return []string{"400 proving_error"}
	}
	for _, p := range proofs {
		if len(p) != d {
			return []string{"400 proving_error"}
		}
	}
	f := ref.BN
	if mode == "insertion" {
		h := ref.KeccakInt(ref.PackInsertion(start, f.Mod(pre), f.Mod(post), modAll(f, comms)))
		okRel, _ := f.Insertion(d, pre, new(big.Int).SetUint64(uint64(start)), comms, proofs, post)
		if okRel && f.Mod(h).Cmp(f.Mod(hash)) == 0 {
			return []string{"200"}
		}
		return []string{"400 proving_error"}
	}
	h := ref.KeccakInt(ref.PackDeletion(idx, f.Mod(pre), f.Mod(post)))
	var bi []*big.Int
	for _, i := range idx {
		bi = append(bi, new(big.Int).SetUint64(uint64(i)))
	}
	okRel, _ := f.Deletion(d, pre, bi, comms, proofs, post)
	if okRel && f.Mod(h).Cmp(f.Mod(hash)) == 0 {
		return []string{"200"}
	}
	return []string{"400 proving_error"}
}

// decodeProofIndependently parses the 8 hex numbers without the repository's decoder.
func decodeProofIndependently(body []byte) (*prover.Proof, error) {
	var doc struct {
		Ar  []string   `json:"ar"`
		Bs  [][]string `json:"bs"`
		Krs []string   `json:"krs"`
	}
	if err := json.Unmarshal(body, &doc); err != nil {
		return nil, err
	}
	if len(doc.Ar) != 2 || len(doc.Krs) != 2 || len(doc.Bs) != 2 || len(doc.Bs[0]) != 2 || len(doc.Bs[1]) != 2 {
		return nil, fmt.Errorf("proof JSON does not have the ar[2], bs[2][2], krs[2] shape")
	}
	raw := make([]byte, 0, 256)
	for _, s := range []string{doc.Ar[0], doc.Ar[1], doc.Bs[0][0], doc.Bs[0][1], doc.Bs[1][0], doc.Bs[1][1], doc.Krs[0], doc.Krs[1]} {
		if !strings.HasPrefix(s, "0x") {
			return nil, fmt.Errorf("coordinate %q is not 0x-hex", s)
		}
		v, ok := new(big.Int).SetString(s[2:], 16)
		if !ok || v.BitLen() > 256 {
			return nil, fmt.Errorf("coordinate %q is not a 256-bit hex integer", s)
		}
		raw = append(raw, v.FillBytes(make([]byte, 32))...)
	}
	gp := groth16.NewProof(ecc.BN254)
	if _, err := gp.ReadFrom(bytes.NewReader(raw)); err != nil {
		return nil, err
	}
	return &prover.Proof{Proof: gp}, nil
}

func classify(r *vhttp.Response) string {
	if r.Outcome != "complete" {
		return "no response (" + r.Outcome + ")"
	}
	switch r.Status {
	case 200, 405:
		return fmt.Sprint(r.Status)
	}
	var e struct {
		Code    string  `json:"code"`
		Message *string `json:"message"`
	}
	if json.Unmarshal(r.Body, &e) != nil || e.Message == nil {
		return fmt.Sprintf("%d with a body that is not {code,message}: %.80q", r.Status, r.Body)
	}
	return fmt.Sprintf("%d %s", r.Status, e.Code)
}

type c09Stats struct {
	mu       sync.Mutex
	requests int64
	classes  map[string]int64
	proofs   int64
	states   map[string]bool
}

// c09RunSeq replays a request sequence on a fresh server and judges every response.
func c09RunSeq(c *ev.Ctx, cs *c09Case, st *c09Stats) [][2]string {
	ps, err := getSystem(cs.Mode, cs.D, cs.B, 0)
	if err != nil {
		c.HarnessError("setup: %v", err)
	}
	var out [][2]string
	seen := map[string]bool{}
	addOut := func(k, m string) {
		if !seen[k] {
			seen[k] = true
			out = append(out, [2]string{k, m})
		}
	}
	first := true
	fail := withServer(cs.Mode, ps, func(do func(method, path, addr string, body []byte) *vhttp.Response) {
		// runs once per explored execution (the default one, plus one per environment deviation)
		var resp []*vhttp.Response
		for _, rq := range cs.Seq {
			resp = append(resp, do(rq.Method, "/prove", proverAddr, []byte(rq.Body)))
		}
		stats := st
		if !first {
			stats = nil
		}
		first = false
		c09Judge(cs, ps, resp, stats, addOut)
	})
	if fail != nil {
		k := seqKey(cs.Seq)
		if len(k) > 200 {
			k = k[:200]
		}
		return [][2]string{{"server-failure|" + cs.Mode + "|" + k, fail.Kind + ": " + fail.Msg}}
	}
	return out
}

func c09Judge(cs *c09Case, ps *prover.ProvingSystem, resp []*vhttp.Response, st *c09Stats, addOut func(k, m string)) {
	tally := map[string]int{}
	for i, r := range resp {
		rq := cs.Seq[i]
		want := refHTTP(cs.Mode, cs.D, cs.B, rq.Method, []byte(rq.Body))
		got := classify(r)
		tally[got]++
		if st != nil {
			st.mu.Lock()
			st.requests++
			st.classes[got]++
			st.states[fmt.Sprint(tally)] = true
			st.mu.Unlock()
		}
		ok := false
		for _, w := range want {
			if w == got {
				ok = true
			}
		}
		pos := ""
		if len(cs.Seq) > 1 && len(cs.Seq) <= 3 {
			pos = fmt.Sprintf(" (request %d of sequence %s)", i+1, seqKey(cs.Seq))
		} else if len(cs.Seq) > 3 {
			pos = fmt.Sprintf(" (request %d of %d on one server)", i+1, len(cs.Seq))
		}
		if !ok {
			addOut(fmt.Sprintf("wrong-response|%s|%s|%s", cs.Mode, rq.Why, got), fmt.Sprintf("%s %s /prove [%s]%s answered %q, documented: %v", cs.Mode, rq.Method, rq.Why, pos, got, want))
			continue
		}
		if got == "200" {
			var doc struct {
				InputHash string `json:"inputHash"`
			}
			json.Unmarshal([]byte(rq.Body), &doc)
			pr, err := decodeProofIndependently(r.Body)
			if err != nil {
				addOut("bad-proof-body|"+cs.Mode+"|"+rq.Why, "200 body is not a proof: "+err.Error())
				continue
			}
			if ve := safeVerify(ps, cs.Mode, bigs(doc.InputHash), pr); ve != nil {
				addOut("proof-does-not-verify|"+cs.Mode+"|"+rq.Why, "200 body does not verify against the request's input hash: "+ve.Error())
			}
			if st != nil {
				st.mu.Lock()
				st.proofs++
				st.mu.Unlock()
			}
		}
	}
}

func seqKey(seq []httpReq) string {
	var w []string
	for _, r := range seq {
		w = append(w, r.Why)
	}
	return strings.Join(w, " > ")
}

func insDoc(b *insBatch) map[string]any {
	hx := func(s string) string { return "0x" + bigs(s).Text(16) }
	hs := func(v []string) []string {
		o := make([]string, len(v))
		for i := range v {
			o[i] = hx(v[i])
		}
		return o
	}
	pr := make([][]string, len(b.Proofs))
	for i := range pr {
		pr[i] = hs(b.Proofs[i])
	}
	return map[string]any{"inputHash": hx(b.Hash), "startIndex": bigs(b.Start).Uint64(), "preRoot": hx(b.Pre), "postRoot": hx(b.Post), "identityCommitments": hs(b.Comms), "merkleProofs": pr}
}

func delDoc(b *delBatch) map[string]any {
	hx := func(s string) string { return "0x" + bigs(s).Text(16) }
	hs := func(v []string) []string {
		o := make([]string, len(v))
		for i := range v {
			o[i] = hx(v[i])
		}
		return o
	}
	pr := make([][]string, len(b.Proofs))
	for i := range pr {
		pr[i] = hs(b.Proofs[i])
	}
	idx := make([]uint64, len(b.Idx))
	for i := range idx {
		idx[i] = bigs(b.Idx[i]).Uint64()
	}
	return map[string]any{"inputHash": hx(b.Hash), "deletionIndices": idx, "preRoot": hx(b.Pre), "postRoot": hx(b.Post), "identityCommitments": hs(b.Items), "merkleProofs": pr}
}

func mustJSON(v any) string { b, _ := json.Marshal(v); return string(b) }

func cloneDoc(d map[string]any) map[string]any {
	var o map[string]any
	json.Unmarshal([]byte(mustJSON(d)), &o)
	return o
}

func c09Body(c *ev.Ctx) {
	quick := c.Quick()
	d, b := 2, 2
	var wg sync.WaitGroup
	for _, m := range []string{"insertion", "deletion"} {
		wg.Add(1)
		go func(m string) { defer wg.Done(); getSystem(m, d, b, 0) }(m)
	}
	wg.Wait()
	st := &c09Stats{classes: map[string]int64{}, states: map[string]bool{}}
	var nSingles, nSeqs int64
	for _, mode := range []string{"insertion", "deletion"} {
		var valid []map[string]any
		var unsat map[string]any
		if mode == "insertion" {
			for _, x := range validInsBatches(d, b) {
				xx := x
				valid = append(valid, insDoc(&xx))
			}
		} else {
			for _, x := range validDelBatches(d, b) {
				xx := x
				valid = append(valid, delDoc(&xx))
			}
		}
		unsat = cloneDoc(valid[0])
		unsat["postRoot"] = "0x5"
		base := mustJSON(valid[0])
		var reqs []httpReq
		add := func(method, body, why string) { reqs = append(reqs, httpReq{method, body, why}) }
		for _, m := range []string{"GET", "HEAD", "PUT", "DELETE", "PATCH", "OPTIONS"} {
			add(m, base, "method "+m)
		}
		add("GET", "", "GET without body")
		for i, v := range valid {
			if quick && i >= 2 {
				break
			}
			add("POST", mustJSON(v), fmt.Sprintf("valid batch #%d", i))
		}
		add("POST", mustJSON(unsat), "unsatisfiable: postRoot replaced")
		// every strict prefix of a valid document
		step := 1
		if quick {
			step = 3
		}
		for i := 0; i < len(base); i += step {
			add("POST", base[:i], fmt.Sprintf("valid document cut after %d bytes", i))
		}
		// every 1-byte body, every 2-byte body over a small alphabet
		for x := 0; x < 256; x++ {
			add("POST", string([]byte{byte(x)}), fmt.Sprintf("1-byte body 0x%02x", x))
		}
		al := "{}[]\":,01x-e.nt "
		for _, x := range al {
			for _, y := range al {
				add("POST", string(x)+string(y), fmt.Sprintf("2-byte body %q", string(x)+string(y)))
			}
		}
		// field x replacement table
		fields := []string{"inputHash", "preRoot", "postRoot", "identityCommitments", "merkleProofs"}
		idxField := "startIndex"
		if mode == "deletion" {
			idxField = "deletionIndices"
		}
		fields = append(fields, idxField)
		big65 := "0x" + strings.Repeat("f", 65)
		repl := map[string]any{"null": nil, "number": 7, "string zz": "zz", "empty string": "", "0x": "0x", " 1": " 1", "1.5": "1.5", "-1": "-1", "over-long hex": big65, "r": ref.R.String(), "2^256-1": "0x" + strings.Repeat("f", 64), "object": map[string]any{}, "bool": true, "array of numbers": []any{1, 2}, "array of zz": []any{"zz", "0x1"}, "empty array": []any{}, "nested too deep": []any{[]any{[]any{"0x1"}}}, "string 0x1": "0x1", "control char": "0x1\u0001", "bell": "\u0007", "DEL": "12\u007f", "quote and backslash": "0x1\"\\", "non-ASCII": "0x1\u00e9\u2028", "float": 1.5, "negative": -1, "2^32": 4294967296, "2^32-1": 4294967295, "decimal string": "12"}
		var rnames []string
		for k := range repl {
			rnames = append(rnames, k)
		}
		sortStrings(rnames)
		for _, f := range fields {
			doc := cloneDoc(valid[0])
			delete(doc, f)
			add("POST", mustJSON(doc), "field "+f+" absent")
			for _, rn := range rnames {
				doc := cloneDoc(valid[0])
				doc[f] = repl[rn]
				add("POST", mustJSON(doc), "field "+f+" := "+rn)
			}
		}
		// array shape changes
		for _, f := range []string{"identityCommitments", "merkleProofs"} {
			doc := cloneDoc(valid[0])
			arr := doc[f].([]any)
			doc[f] = arr[:len(arr)-1]
			add("POST", mustJSON(doc), f+" one shorter")
			doc = cloneDoc(valid[0])
			arr = doc[f].([]any)
			doc[f] = append(arr, arr[0])
			add("POST", mustJSON(doc), f+" one longer")
		}
		{
			doc := cloneDoc(valid[0])
			rows := doc["merkleProofs"].([]any)
			rows[0] = rows[0].([]any)[:1]
			add("POST", mustJSON(doc), "inner merkle proof one shorter")
			doc = cloneDoc(valid[0])
			rows = doc["merkleProofs"].([]any)
			rows[1] = append(rows[1].([]any), "0x0")
			add("POST", mustJSON(doc), "inner merkle proof one longer")
			doc = cloneDoc(valid[0])
			doc["unknownField"] = "0x1"
			add("POST", mustJSON(doc), "extra unknown field (otherwise valid)")
			doc = cloneDoc(valid[0])
			doc["preRoot"] = "0x" + strings.Repeat("0", 1<<20) + "1"
			add("POST", mustJSON(doc), "1 MiB hex string as preRoot")
			add("POST", strings.Repeat("[", 100000), "100000 nested arrays")
			add("POST", base+base, "two documents concatenated")
			add("POST", "\xef\xbb\xbf"+base, "byte-order mark before the document")
			add("POST", " \n\t"+base+"\n", "whitespace around a valid document")
		}
		// single-value perturbations of the valid batch
		for _, f := range []string{"inputHash", "preRoot", "postRoot"} {
			doc := cloneDoc(valid[0])
			v := bigs(doc[f].(string))
			doc[f] = "0x" + v.Add(v, ref.B(1)).Text(16)
			add("POST", mustJSON(doc), f+"+1")
			doc = cloneDoc(valid[0])
			v = bigs(doc[f].(string))
			doc[f] = "0x" + v.Add(v, ref.R).Text(16)
			add("POST", mustJSON(doc), f+"+r (same field element)")
		}
		if mode == "insertion" {
			for i, x := range nearValidInsBatches(d, b) {
				xx := x
				add("POST", mustJSON(insDoc(&xx)), fmt.Sprintf("near-valid batch #%d (start %s)", i, x.Start))
			}
		} else {
			for i, x := range nearValidDelBatches(d, b) {
				xx := x
				add("POST", mustJSON(delDoc(&xx)), fmt.Sprintf("near-valid batch #%d (indices %v)", i, x.Idx))
			}
		}
		nSingles += int64(len(reqs))
		// singles: all on ONE server instance per chunk (also exercises "answers subsequent requests")
		chunk := 200
		var chunks [][]httpReq
		for i := 0; i < len(reqs); i += chunk {
			j := i + chunk
			if j > len(reqs) {
				j = len(reqs)
			}
			chunks = append(chunks, reqs[i:j])
		}
		var vmu sync.Mutex
		runAll := func(seqs [][]httpReq) {
			par := 8
			if vsched.HasSharedState() {
				par = 1 // the tree under check keeps package-level state: executions must not overlap in this process
			}
			sem := make(chan struct{}, par)
			var wg sync.WaitGroup
			for _, sq := range seqs {
				if c.Expired() {
					c.Cap("budget reached in " + mode)
					break
				}
				wg.Add(1)
				sem <- struct{}{}
				go func(sq []httpReq) {
					defer wg.Done()
					defer func() { <-sem }()
					cs := &c09Case{Mode: mode, D: d, B: b, Seq: sq}
					for _, m := range c09RunSeq(c, cs, st) {
						vmu.Lock()
						// replay file carries only the offending request (and the whole sequence for histories)
						rs := *cs
						if len(sq) > 3 {
							for _, rq := range sq {
								if strings.Contains(m[0], "|"+rq.Why+"|") {
									rs.Seq = []httpReq{rq}
								}
							}
						}
						c.Violation(m[0], m[1], rs)
						vmu.Unlock()
					}
				}(sq)
			}
			wg.Wait()
		}
		runAll(chunks)
		// histories: all sequences of length <= 2 (3 thorough) over the 8-letter alphabet
		letters := []httpReq{{"GET", "", "GET"}, {"POST", mustJSON(valid[0]), "valid1"}, {"POST", mustJSON(valid[1]), "valid2"}, {"POST", mustJSON(unsat), "unsat"},
			{"POST", mustJSON(func() map[string]any { x := cloneDoc(valid[0]); x["identityCommitments"] = []any{"0x1"}; return x }()), "wrongdims"},
			{"POST", "not json", "notjson"}, {"POST", mustJSON(func() map[string]any { x := cloneDoc(valid[0]); x["preRoot"] = "zz"; return x }()), "nonnumeric"}, {"POST", "", "empty"}}
		var seqs [][]httpReq
		maxL := 2
		if !quick {
			maxL = 3
		}
		var rec func(cur []httpReq)
		rec = func(cur []httpReq) {
			if len(cur) > 0 {
				seqs = append(seqs, append([]httpReq{}, cur...))
			}
			if len(cur) == maxL {
				return
			}
			for _, l := range letters {
				if len(cur) == 2 && quick {
					continue
				}
				rec(append(cur, l))
			}
		}
		rec(nil)
		nSeqs += int64(len(seqs))
		runAll(seqs)
		c.Logf("%s: %d single requests, %d histories", mode, len(reqs), len(seqs))
		c.Sample(c09Case{Mode: mode, D: d, B: b, Seq: seqs[len(seqs)/2]})
	}
	c.Set("states", int64(len(st.states)))
	c.Set("transitions", st.requests)
	e2e := int64(0)
	if c.NViolations() == 0 {
		e2e = c09E2E(c)
	}
	c.Set("e2e_requests_validated_on_real_binary", e2e)
	c.Set("traces_validated_against_impl", nSeqs+nSingles+e2e)
	c.Set("single_requests", nSingles)
	c.Set("request_histories", nSeqs)
	c.Set("proofs_returned_and_verified", st.proofs)
	c.Set("response_classes", st.classes)
	c.Set("exhaustive", len(c.CapsHit()) == 0)
	c.Set("rule", "requests are delivered through a model network to the real server.Run (real mux, Prometheus wrapper, proveHandler, real Groth16 at (2,2)); single requests: all methods, every strict prefix of a valid document, every 1-byte body, all 2-byte bodies over 16 characters, field x replacement table (23 replacements x 6 fields), shape changes, over-long inputs, +1/+r perturbations; histories: all request sequences of length <=2 (3) over an 8-letter alphabet on a fresh server each; state = tally of (status, code) classes; oracle = documented status/code computed by an independent document classifier and relation; every 200 body is decoded independently and verified")
	c.Assume("documents with absent/null fields or under-specified numeric notation may answer either 400 code (the statement does not pin it down)")
	c.Assume("net/http's connection handling is the vhttp model; a panic escaping ServeHTTP counts as 'no response'")
}

func sortStrings(s []string) {
	for i := 1; i < len(s); i++ {
		for j := i; j > 0 && s[j] < s[j-1]; j-- {
			s[j], s[j-1] = s[j-1], s[j]
		}
	}
}
