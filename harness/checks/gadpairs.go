package checks

import (
	"crypto/sha256"
	"encoding/hex"
	"fmt"
	"strings"

	"github.com/consensys/gnark-crypto/ecc"
	"github.com/consensys/gnark/frontend"
	"github.com/consensys/gnark/frontend/cs/r1cs"

	"verif/harness/gad"
	"verif/harness/ref"
)

// Scenarios for the concurrent-callers phase (registry.go runPairIsolation): two threads run the same
// gadget code (Define through gnark's test engine, or a compilation) on different values.

func evalPair[T any](name string, cases [2]T, eval func(*T, *tinyStats, *bnStats) (string, string, error)) pairScenario {
	return pairScenario{Name: name, F: func(i int) string {
		cs := cases[i]
		got, want, err := eval(&cs, nil, nil)
		if err != nil {
			return "error: " + err.Error()
		}
		return "got=" + got + " want=" + want
	}}
}

func compilePair(name string, circuits [2]func() frontend.Circuit) pairScenario {
	return pairScenario{Name: name, F: func(i int) string {
		ccs, err := frontend.Compile(ecc.BN254.ScalarField(), r1cs.NewBuilder, circuits[i](), frontend.IgnoreUnconstrainedInputs())
		if err != nil {
			return "error: " + err.Error()
		}
		h := sha256.New()
		ccs.WriteTo(h)
		return fmt.Sprintf("%d constraints %s", ccs.GetNbConstraints(), hex.EncodeToString(h.Sum(nil)))
	}}
}

func c05Pairs() []pairScenario {
	r := ref.R.String()
	rm1 := ref.BN.Mod(ref.B(-1)).String()
	return []pairScenario{
		evalPair("Poseidon2 gadget (engine)", [2]c05Case{{Kind: "engine-p2", P: r, A: "1", B: "2", Bump: -1}, {Kind: "engine-p2", P: r, A: rm1, B: "3", Bump: -1}}, c05Eval),
		evalPair("Poseidon1 next to Poseidon2 (engine)", [2]c05Case{{Kind: "engine-p1", P: r, A: "7", Bump: -1}, {Kind: "engine-p2", P: r, A: "7", B: "0", Bump: -1}}, c05Eval),
		compilePair("compile Poseidon1 next to Poseidon2", [2]func() frontend.Circuit{func() frontend.Circuit { return &gad.Pos1{} }, func() frontend.Circuit { return &gad.Pos2{} }}),
	}
}

// keccakReducedPair: the sponge gadget with a round-reduced permutation (same code, shorter executions)
// against the round-reduced reference sponge of ref.KeccakReduced.
func keccakReducedPair(name string, rounds int, msgs [2]string, domains [2]int) pairScenario {
	return pairScenario{Name: name, F: func(i int) string {
		msg, _ := hex.DecodeString(msgs[i])
		in, out := bitsLSB(msg), bitsLSB(ref.KeccakReduced(msg, rounds, byte(domains[i])))
		shape := &gad.KeccakR{In: gad.Vars(len(in)), Out: gad.Vars(256), Rounds: rounds, Domain: domains[i]}
		asg := &gad.KeccakR{In: fv(in), Out: fv(out)}
		if err := gad.Solved(shape, asg, ref.R); err != nil {
			return "got=reject want=accept"
		}
		return "got=accept want=accept"
	}}
}

func c04Pairs(quick bool) []pairScenario {
	sc := []pairScenario{
		keccakReducedPair("Keccak sponge gadget, 2 rounds, one block each", 2, [2]string{"01", "02ff"}, [2]int{1, 1}),
		keccakReducedPair("Keccak sponge gadget, 1 round, Keccak next to SHA-3 domain, empty next to two blocks", 1, [2]string{"", strings.Repeat("5a", 137)}, [2]int{1, 6}),
	}
	if !quick {
		sc = append(sc, evalPair("Keccak256 gadget (engine, 24 rounds), one block", [2]c04Case{{"engine", "01", false, -1}, {"engine", "02ff", false, -1}}, c04Eval))
	}
	return sc
}

func c06Pairs() []pairScenario {
	r := ref.R.String()
	rm1 := ref.BN.Mod(ref.B(-1)).String()
	bits := func(v string) string { // little-endian 256-digit string of v
		x := bigs(v)
		var sb strings.Builder
		for i := 0; i < 256; i++ {
			sb.WriteByte(byte('0' + x.Bit(i)))
		}
		return sb.String()
	}
	return []pairScenario{
		evalPair("ToReducedBigEndian (engine, 256 bits)", [2]c06Case{{Kind: "eng-torbe", P: r, Size: 256, V: "5", Flip: -1}, {Kind: "eng-torbe", P: r, Size: 256, V: rm1, Flip: -1}}, c06Eval),
		evalPair("ReducedModRCheck (engine): r-1 next to r", [2]c06Case{{Kind: "bn-rmrc-engine", P: r, Digits: bits(rm1), Flip: -1}, {Kind: "bn-rmrc-engine", P: r, Digits: bits(r), Flip: -1}}, c06Eval),
		evalPair("ReducedModRCheck over F_251 next to BN254", [2]c06Case{{Kind: "eng-rmrc", P: "251", Digits: "01011111", Flip: -1}, {Kind: "bn-rmrc-engine", P: r, Digits: bits(rm1), Flip: -1}}, c06Eval),
		evalPair("FromBinaryBigEndian (engine)", [2]c06Case{{Kind: "eng-frombbe", P: r, Digits: bits("5"), Flip: -1}, {Kind: "eng-frombbe", P: r, Digits: bits(rm1), Flip: -1}}, c06Eval),
	}
}

func c01Pairs() []pairScenario {
	var pick []c01Case
	for _, cs := range c01Menu(1, true) {
		if cs.Kind != "gadget-bn" {
			continue
		}
		b := cs.B
		if ok, _ := ref.BN.Insertion(b.Depth, bigs(b.Pre), bigs(b.Start), ints(b.Comms), ints2(b.Proofs), bigs(b.Post)); ok && (len(pick) == 0 || pick[0].B.Post != cs.B.Post) {
			pick = append(pick, cs)
			if len(pick) == 2 {
				break
			}
		}
	}
	if len(pick) < 2 {
		return nil
	}
	return []pairScenario{evalPair("InsertionProof gadget (engine, depth 1)", [2]c01Case{pick[0], pick[1]}, c01Eval)}
}

func c02Pairs() []pairScenario {
	var pick []c02Case
	for _, cs := range c02Menu(1, true) {
		if cs.Kind != "gadget-bn" {
			continue
		}
		b := cs.B
		if ok, _ := ref.BN.Deletion(b.Depth, bigs(b.Pre), ints(b.Idx), ints(b.Items), ints2(b.Proofs), bigs(b.Post)); ok && (len(pick) == 0 || pick[0].B.Post != cs.B.Post) {
			pick = append(pick, cs)
			if len(pick) == 2 {
				break
			}
		}
	}
	if len(pick) < 2 {
		return nil
	}
	return []pairScenario{evalPair("DeletionProof gadget (engine, depth 1)", [2]c02Case{pick[0], pick[1]}, c02Eval)}
}

// fullCircuitPairs: two threads run the WHOLE circuits (Define through gnark's engine) of different shapes
// on valid batches: anything Define keeps outside its own frame (packing buffers, path scratch, cached
// tables) is then shared between two definitions that are in progress at the same time.
func fullCircuitPairs() []pairScenario {
	insV := func(d, b int) c01Case {
		m := insSweepMenu(d, b, "full-engine-bn")
		return m[0]
	}
	delV := func(d, b int) c02Case {
		m := delSweepMenu(d, b, "full-engine-bn")
		return m[0]
	}
	runIns := func(cs c01Case) string {
		got, want, err := c01Eval(&cs, nil, nil)
		if err != nil {
			return "error: " + err.Error()
		}
		return "got=" + got + " want=" + want
	}
	runDel := func(cs c02Case) string {
		got, want, err := c02Eval(&cs, nil, nil)
		if err != nil {
			return "error: " + err.Error()
		}
		return "got=" + got + " want=" + want
	}
	i22, i11, d21 := insV(2, 2), insV(1, 1), delV(2, 1)
	return []pairScenario{
		{Name: "full InsertionMbuCircuit.Define (engine): (2,2) next to (1,1)", MaxBound: 1, Parallel: true, F: func(i int) string {
			if i == 0 {
				return runIns(i22)
			}
			return runIns(i11)
		}},
		{Name: "full InsertionMbuCircuit.Define (2,2) next to DeletionMbuCircuit.Define (2,1) (engine)", MaxBound: 1, Parallel: true, F: func(i int) string {
			if i == 0 {
				return runIns(i22)
			}
			return runDel(d21)
		}},
	}
}
