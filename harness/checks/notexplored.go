package checks

import (
	"encoding/json"
	"fmt"
	"os"
	"path/filepath"

	"verif/harness/ev"
)

// NOTEXPLORED <ID> <reason>: the instrumenter met a construct it does not support
// (or the instrumented tree does not build): nothing was explored. This is
// reported as such (exhaustive:false, exit 0), never as a verdict.
func init() {
	Registry["NOTEXPLORED"] = func() {
		id, reason := os.Args[1], os.Args[2]
		fmt.Fprintf(os.Stderr, "[%s] NOT EXPLORED: %s\n", id, reason)
		e := map[string]any{"property_id": id, "tier": "quick", "seed": 1, "level": "other", "wall_s": 0.0, "violations": 0,
			"coverage": map[string]any{"explanation": "nothing explored: " + reason, "exhaustive": false}, "assumptions": []string{}}
		raw, _ := json.MarshalIndent(e, "", " ")
		evDir := os.Getenv("VERIF_EVIDENCE_DIR")
		if evDir == "" {
			evDir = filepath.Join(ev.VerifDir, "evidence")
		}
		os.MkdirAll(evDir, 0o755)
		os.WriteFile(filepath.Join(evDir, id+".json"), raw, 0o644)
		os.Exit(0)
	}
}
