package checks

import (
	"encoding/json"
	"fmt"
	"math/big"
	"reflect"
	"sync"

	"github.com/consensys/gnark-crypto/ecc/bn254"

	"verif/harness/ref"
	"worldcoin/gnark-mbu/prover"
)

type psKey struct {
	mode string
	d, b int
	inst int
}

var (
	psMu    sync.Mutex
	psCache = map[psKey]*prover.ProvingSystem{}
)

// getSystem runs a fresh trusted setup (cached per process; inst distinguishes independent setups).
func getSystem(mode string, d, b, inst int) (*prover.ProvingSystem, error) {
	k := psKey{mode, d, b, inst}
	psMu.Lock()
	if ps, ok := psCache[k]; ok {
		psMu.Unlock()
		return ps, nil
	}
	psMu.Unlock()
	var ps *prover.ProvingSystem
	var err error
	if mode == "insertion" {
		ps, err = prover.SetupInsertion(uint32(d), uint32(b))
	} else {
		ps, err = prover.SetupDeletion(uint32(d), uint32(b))
	}
	if err != nil {
		return nil, err
	}
	psMu.Lock()
	psCache[k] = ps
	psMu.Unlock()
	return ps, nil
}

func toBigs(v []string) []big.Int {
	out := make([]big.Int, len(v))
	for i := range v {
		out[i] = *bigs(v[i])
	}
	return out
}

func (b *insBatch) params() *prover.InsertionParameters {
	p := &prover.InsertionParameters{InputHash: *bigs(b.Hash), StartIndex: uint32(bigs(b.Start).Uint64()), PreRoot: *bigs(b.Pre), PostRoot: *bigs(b.Post), IdComms: toBigs(b.Comms)}
	for _, pr := range b.Proofs {
		p.MerkleProofs = append(p.MerkleProofs, toBigs(pr))
	}
	return p
}

func (b *delBatch) params() *prover.DeletionParameters {
	p := &prover.DeletionParameters{InputHash: *bigs(b.Hash), PreRoot: *bigs(b.Pre), PostRoot: *bigs(b.Post), IdComms: toBigs(b.Items)}
	for _, s := range b.Idx {
		p.DeletionIndices = append(p.DeletionIndices, uint32(bigs(s).Uint64()))
	}
	for _, pr := range b.Proofs {
		p.MerkleProofs = append(p.MerkleProofs, toBigs(pr))
	}
	return p
}

// validInsBatches / validDelBatches: valid transitions at (d,b) from several tree
// states (empty, with holes, ending at the last leaf / duplicates, padding).
func validInsBatches(d, b int) []insBatch {
	if d > 16 {
		return sparseInsBatches(d, b)
	}
	n := 1 << uint(d)
	rm1 := new(big.Int).Sub(ref.R, ref.B(1))
	var out []insBatch
	mk := func(t *ref.Tree, start int, comms []*big.Int) {
		if start < 0 || start+len(comms) > n {
			return
		}
		cur := t.Clone()
		bt := insBatch{Depth: d, Start: fmt.Sprint(start), Pre: t.Root().String(), Comms: strs(comms)}
		for i, cm := range comms {
			if cur.Leaves[start+i].Sign() != 0 {
				return
			}
			bt.Proofs = append(bt.Proofs, strs(cur.Proof(start+i)))
			cur.Set(start+i, cm)
		}
		bt.Post = cur.Root().String()
		h, _ := bt.refHash(ref.BN)
		bt.Hash = h.String()
		out = append(out, bt)
	}
	c1 := make([]*big.Int, b)
	c2 := make([]*big.Int, b)
	for i := range c1 {
		c1[i] = ref.B(int64(i + 1))
		c2[i] = []*big.Int{rm1, ref.B(0), ref.Pow2(200)}[i%3]
	}
	empty := ref.NewTree(ref.BN, d)
	mk(empty, 0, c1)
	mk(empty, n-b, c2)
	hole := ref.NewTree(ref.BN, d)
	hole.Set(n-1, ref.B(77)) // occupied last leaf, holes before it (a deletion history)
	mk(hole, 0, c2)
	if n-b-1 >= 0 {
		mk(hole, n-b-1, c1)
	}
	return out
}

func validDelBatches(d, b int) []delBatch {
	if d > 16 {
		return sparseDelBatches(d, b)
	}
	n := 1 << uint(d)
	rm1 := new(big.Int).Sub(ref.R, ref.B(1))
	full := ref.NewTree(ref.BN, d)
	for i := 0; i < n; i++ {
		full.Set(i, []*big.Int{ref.B(1), rm1, ref.B(7), ref.Pow2(100)}[i%4])
	}
	var out []delBatch
	mk := func(t *ref.Tree, idx []int64, garbage bool) {
		cur := t.Clone()
		bt := delBatch{Depth: d, Pre: t.Root().String()}
		for _, ix := range idx {
			bt.Idx = append(bt.Idx, fmt.Sprint(ix))
			if ix >= int64(n) {
				if garbage {
					bt.Items = append(bt.Items, "12345")
					g := make([]string, d)
					for j := range g {
						g[j] = "99"
					}
					bt.Proofs = append(bt.Proofs, g)
				} else {
					bt.Items = append(bt.Items, "0")
					bt.Proofs = append(bt.Proofs, strs(make0(d)))
				}
				continue
			}
			bt.Items = append(bt.Items, cur.Leaves[ix].String())
			bt.Proofs = append(bt.Proofs, strs(cur.Proof(int(ix))))
			cur.Set(int(ix), ref.B(0))
		}
		bt.Post = cur.Root().String()
		h, _ := bt.refHash(ref.BN)
		bt.Hash = h.String()
		out = append(out, bt)
	}
	seq := func(f func(i int) int64) []int64 {
		o := make([]int64, b)
		for i := range o {
			o[i] = f(i)
		}
		return o
	}
	mk(full, seq(func(i int) int64 { return int64(i % n) }), false)
	mk(full, seq(func(i int) int64 { return int64(n - 1) }), false)                               // same index repeatedly (second sees empty leaf)
	mk(full, seq(func(i int) int64 { return int64(n + i%n) }), true)                              // all padding with garbage contents
	mk(full, seq(func(i int) int64 { return []int64{int64(n - 1), int64(2*n - 1)}[i%2] }), false) // mixed
	return out
}

// nearValidInsBatches: batches that are INVALID by the statement but that a circuit
// with a weakened range/emptiness/threading check would accept: positions past the
// end with sibling paths of the wrapped-around leaf and the post-root such a
// circuit would compute. Hashes are the canonical ones.
func nearValidInsBatches(d, b int) []insBatch {
	n := 1 << uint(d)
	var out []insBatch
	mk := func(t *ref.Tree, start int64, comms []*big.Int, skipEmptiness bool) {
		cur := t.Clone()
		bt := insBatch{Depth: d, Start: fmt.Sprint(start), Pre: t.Root().String(), Comms: strs(comms)}
		for i, cm := range comms {
			pos := int((start + int64(i)) % int64(n))
			bt.Proofs = append(bt.Proofs, strs(cur.Proof(pos)))
			cur.Set(pos, cm)
		}
		bt.Post = cur.Root().String()
		h, ok := bt.refHash(ref.BN)
		if !ok {
			return
		}
		bt.Hash = h.String()
		if valid, _ := ref.BN.Insertion(d, bigs(bt.Pre), bigs(bt.Start), ints(bt.Comms), ints2(bt.Proofs), bigs(bt.Post)); !valid {
			out = append(out, bt)
		}
	}
	comms := make([]*big.Int, b)
	for i := range comms {
		comms[i] = ref.B(int64(i + 3))
	}
	empty := ref.NewTree(ref.BN, d)
	mk(empty, int64(n), comms, false)     // first position one past the end (aliases leaf 0)
	mk(empty, int64(n-1), comms, false)   // batch runs past the end when b >= 2
	mk(empty, int64(2*n-b), comms, false) // top of the one-bit-too-wide range
	mk(empty, int64(2*n), comms, false)   // two bits too high
	occ := ref.NewTree(ref.BN, d)
	occ.Set(0, ref.B(9))
	mk(occ, 0, comms, true) // writes over an occupied leaf with the path that would authenticate it if emptiness were not checked
	return out
}

func nearValidDelBatches(d, b int) []delBatch {
	n := 1 << uint(d)
	full := ref.NewTree(ref.BN, d)
	for i := 0; i < n; i++ {
		full.Set(i, ref.B(int64(i+11)))
	}
	var out []delBatch
	// mk builds a batch in which slot 0 uses index idx0 but presents the genuine value/path of
	// leaf idx0 mod 2^d, and claims the post root obtained by really deleting that leaf
	mk := func(idx0 int64, deleteAliased bool) {
		cur := full.Clone()
		bt := delBatch{Depth: d, Pre: full.Root().String()}
		for i := 0; i < b; i++ {
			ix := idx0
			if i > 0 {
				ix = int64(n + i%n) // remaining slots: ordinary padding
			}
			pos := int(ix % int64(n))
			bt.Idx = append(bt.Idx, fmt.Sprint(ix))
			if i == 0 {
				bt.Items = append(bt.Items, cur.Leaves[pos].String())
				bt.Proofs = append(bt.Proofs, strs(cur.Proof(pos)))
				if deleteAliased {
					cur.Set(pos, ref.B(0))
				}
			} else {
				bt.Items = append(bt.Items, "0")
				bt.Proofs = append(bt.Proofs, strs(make0(d)))
			}
		}
		bt.Post = cur.Root().String()
		h, ok := bt.refHash(ref.BN)
		if !ok {
			return
		}
		bt.Hash = h.String()
		if valid, _ := ref.BN.Deletion(d, bigs(bt.Pre), ints(bt.Idx), ints(bt.Items), ints2(bt.Proofs), bigs(bt.Post)); !valid {
			out = append(out, bt)
		}
	}
	mk(int64(n+1), true)    // padding index carrying a genuine membership proof: the leaf must NOT be deleted
	mk(int64(2*n+1), true)  // index one bit too high, aliasing leaf 1
	mk(int64(2*n+1), false) // the same, claiming an unchanged root
	mk(int64(4*n), true)
	mk(1, false) // genuine deletion presented, but the claimed post-root is the unchanged root
	return out
}

// ---- proof re-randomisation ---------------------------------------------------
// A Groth16 proof (A,B,C) stays valid under (sA, s^-1 B, C) and under
// (A, B + t*delta2, C + t*A). The checks use this to obtain VALID proofs in which a
// chosen coordinate has leading zero bytes, deterministically instead of waiting
// for the ~2 % chance per coordinate.

type proofVariant struct {
	JSON  []byte
	Short []string // names of the slots shorter than 32 bytes
}

func vkDelta2(ps *prover.ProvingSystem) (bn254.G2Affine, error) {
	v := reflect.ValueOf(ps.VerifyingKey)
	if v.Kind() == reflect.Ptr {
		v = v.Elem()
	}
	f := v.FieldByName("G2")
	if !f.IsValid() {
		return bn254.G2Affine{}, fmt.Errorf("verifying key has no G2 field")
	}
	d := f.FieldByName("Delta")
	if !d.IsValid() {
		return bn254.G2Affine{}, fmt.Errorf("verifying key has no G2.Delta field")
	}
	g, ok := d.Interface().(bn254.G2Affine)
	if !ok {
		return bn254.G2Affine{}, fmt.Errorf("unexpected type of G2.Delta")
	}
	return g, nil
}

// proofVariants returns valid re-randomisations of the proof such that every one of the
// eight JSON slots is short in at least one variant (bounded search; slots not reached are simply missing).
func proofVariants(ps *prover.ProvingSystem, proofJSON []byte, maxTrials int) ([]proofVariant, error) {
	pr, err := decodeProofIndependentlyV(proofJSON)
	if err != nil {
		return nil, err
	}
	e := reflect.ValueOf(pr.Proof).Elem()
	A := e.FieldByName("Ar").Interface().(bn254.G1Affine)
	B := e.FieldByName("Bs").Interface().(bn254.G2Affine)
	C := e.FieldByName("Krs").Interface().(bn254.G1Affine)
	delta, err := vkDelta2(ps)
	if err != nil {
		return nil, err
	}
	covered := map[string]bool{}
	var out []proofVariant
	for trial := 1; trial <= maxTrials && len(covered) < 8; trial++ {
		s := big.NewInt(int64(2*trial + 1))
		t := big.NewInt(int64(7*trial + 3))
		sInv := new(big.Int).ModInverse(s, ref.R)
		var A2, C2, tA bn254.G1Affine
		var B2, tD bn254.G2Affine
		A2.ScalarMultiplication(&A, s)
		B2.ScalarMultiplication(&B, sInv)
		// second move on (A2, B2, C): B3 = B2 + t*delta, C3 = C + t*A2
		tD.ScalarMultiplication(&delta, t)
		B2.Add(&B2, &tD)
		tA.ScalarMultiplication(&A2, t)
		C2.Add(&C, &tA)
		co := [8]*big.Int{A2.X.BigInt(new(big.Int)), A2.Y.BigInt(new(big.Int)), B2.X.A1.BigInt(new(big.Int)), B2.X.A0.BigInt(new(big.Int)), B2.Y.A1.BigInt(new(big.Int)), B2.Y.A0.BigInt(new(big.Int)), C2.X.BigInt(new(big.Int)), C2.Y.BigInt(new(big.Int))}
		var short []string
		fresh := false
		for i, x := range co {
			if len(x.Bytes()) < 32 {
				short = append(short, slotNames[i])
				if !covered[slotNames[i]] {
					fresh = true
				}
			}
		}
		if !fresh {
			continue
		}
		for _, n := range short {
			covered[n] = true
		}
		hx := func(x *big.Int) string { return "0x" + x.Text(16) }
		js, _ := json.Marshal(map[string]any{"ar": []string{hx(co[0]), hx(co[1])}, "bs": [][]string{{hx(co[2]), hx(co[3])}, {hx(co[4]), hx(co[5])}}, "krs": []string{hx(co[6]), hx(co[7])}})
		out = append(out, proofVariant{js, short})
	}
	return out, nil
}

// sparseInsBatches / sparseDelBatches: valid batches on deep trees (reference: ref.Sparse), at the first
// leaves and at the last leaves of the tree.
func sparseInsBatches(d, b int) []insBatch {
	var out []insBatch
	size := new(big.Int).Lsh(big.NewInt(1), uint(d))
	for _, start := range []*big.Int{big.NewInt(0), new(big.Int).Sub(size, big.NewInt(int64(b)))} {
		t := ref.NewSparse(ref.BN, d)
		t.Set(1<<uint(d-1)-1, ref.B(77)) // something elsewhere in the tree
		if start.Sign() == 0 {
			t = ref.NewSparse(ref.BN, d)
		}
		bt := insBatch{Depth: d, Start: start.String(), Pre: t.Root().String()}
		for i := 0; i < b; i++ {
			ix := new(big.Int).Add(start, big.NewInt(int64(i))).Uint64()
			cm := ref.B(int64(i + 5))
			bt.Comms = append(bt.Comms, cm.String())
			bt.Proofs = append(bt.Proofs, strs(t.Proof(ix)))
			t.Set(ix, cm)
		}
		bt.Post = t.Root().String()
		h, _ := bt.refHash(ref.BN)
		bt.Hash = h.String()
		out = append(out, bt)
	}
	return out
}

func sparseDelBatches(d, b int) []delBatch {
	var out []delBatch
	size := new(big.Int).Lsh(big.NewInt(1), uint(d))
	for _, first := range []uint64{0, size.Uint64() - uint64(b)} {
		t := ref.NewSparse(ref.BN, d)
		for i := 0; i < b; i++ {
			t.Set(first+uint64(i), ref.B(int64(i+9)))
		}
		bt := delBatch{Depth: d, Pre: t.Root().String()}
		for i := 0; i < b; i++ {
			ix := first + uint64(i)
			bt.Idx = append(bt.Idx, fmt.Sprint(ix))
			bt.Items = append(bt.Items, t.Leaves[ix].String())
			bt.Proofs = append(bt.Proofs, strs(t.Proof(ix)))
			t.Set(ix, ref.B(0))
		}
		bt.Post = t.Root().String()
		h, _ := bt.refHash(ref.BN)
		bt.Hash = h.String()
		out = append(out, bt)
	}
	return out
}
