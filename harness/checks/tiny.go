package checks

import (
	"fmt"
	"sort"

	"verif/harness/r1csmc"
)

// tinyRun: complete search of a tinyfield system for one input assignment; open
// inputs (not in vals) are solved for. Returns the sorted set of values the wire
// `out` takes over all accepting states.
// errNodeCap: the search for one input was abandoned (too many prover-chosen completions to enumerate).
var errNodeCap = fmt.Errorf("search node cap hit")

type tinyStats struct {
	Nodes, Edges, Branches, Survived int64
}

func tinyRun(sys *r1csmc.Sys[uint64, r1csmc.Small], vals map[string]uint64, out string, st *tinyStats) ([]uint64, error) {
	init := make([]uint64, sys.NWires)
	set := make([]bool, sys.NWires)
	for n, v := range vals {
		w, ok := sys.Names[n]
		if !ok {
			return nil, fmt.Errorf("no input wire named %q (have %v)", n, sys.Names)
		}
		init[w] = v % r1csmc.TinyP
		set[w] = true
	}
	ow, ok := sys.Names[out]
	if !ok {
		return nil, fmt.Errorf("no input wire named %q", out)
	}
	seen := map[uint64]bool{}
	x := &r1csmc.Search[uint64, r1csmc.Small]{S: sys, MaxNodes: 3_000_000}
	x.Run(init, set, func(w []uint64) bool { seen[w[ow]] = true; return true })
	if st != nil {
		st.Nodes += x.Nodes
		st.Edges += x.Edges
		st.Branches += x.Branches
		st.Survived += x.Survived
	}
	if x.Err != nil {
		return nil, x.Err
	}
	if x.Capped {
		return nil, errNodeCap
	}
	var res []uint64
	for v := range seen {
		res = append(res, v)
	}
	sort.Slice(res, func(i, j int) bool { return res[i] < res[j] })
	return res, nil
}

// tinyRunVec is tinyRun for several observed wires: returns the sorted set of
// observed vectors (as strings) over all accepting states.
func tinyRunVec(sys *r1csmc.Sys[uint64, r1csmc.Small], vals map[string]uint64, outs []string, st *tinyStats) ([]string, error) {
	init := make([]uint64, sys.NWires)
	set := make([]bool, sys.NWires)
	for n, v := range vals {
		w, ok := sys.Names[n]
		if !ok {
			return nil, fmt.Errorf("no input wire named %q", n)
		}
		init[w] = v % r1csmc.TinyP
		set[w] = true
	}
	ow := make([]int, len(outs))
	for i, n := range outs {
		w, ok := sys.Names[n]
		if !ok {
			return nil, fmt.Errorf("no input wire named %q", n)
		}
		ow[i] = w
	}
	seen := map[string]bool{}
	x := &r1csmc.Search[uint64, r1csmc.Small]{S: sys, MaxNodes: 3_000_000}
	x.Run(init, set, func(w []uint64) bool {
		b := make([]byte, len(ow))
		for i, k := range ow {
			b[i] = byte('0' + w[k])
			if w[k] > 9 {
				b[i] = '?'
			}
		}
		seen[string(b)] = true
		return true
	})
	if st != nil {
		st.Nodes += x.Nodes
		st.Edges += x.Edges
		st.Branches += x.Branches
		st.Survived += x.Survived
	}
	if x.Err != nil {
		return nil, x.Err
	}
	if x.Capped {
		return nil, errNodeCap
	}
	var res []string
	for v := range seen {
		res = append(res, v)
	}
	sort.Strings(res)
	return res, nil
}
