package checks

import (
	"encoding/json"
	"fmt"
	"math/big"
	"sync"
	"time"

	"verif/harness/ev"
	"verif/harness/par"
	"verif/harness/ref"
	"worldcoin/gnark-mbu/prover"
)

type c07Case struct {
	Mode  string    `json:"mode"`
	D     int       `json:"depth"`
	B     int       `json:"batch"`
	Ins   *insBatch `json:"ins,omitempty"`
	Del   *delBatch `json:"del,omitempty"`
	Why   string    `json:"why"`
	Valid bool      `json:"reference_valid"`
}

func init() {
	Registry["C07"] = func() {
		ev.Main("C07", "exploration", 240*time.Second, 40*time.Minute, c07Body, func(c *ev.Ctx, raw json.RawMessage) {
			var cs c07Case
			if err := json.Unmarshal(raw, &cs); err != nil {
				c.HarnessError("%v", err)
			}
			st := &c07Stats{}
			for _, v := range c07Eval(&cs, st, nil) {
				fmt.Println("replay:", v[0], v[1])
				c.Violation(v[0], v[1], cs)
			}
		})
	}
}

type c07Stats struct {
	mu                                            sync.Mutex
	proves, proofs, verifies, accepts, rejects    int64
	shapeErrors, unsatErrors, crossRejects, other int64
	secondSetupRejects                            int64
}

func safeProve(ps *prover.ProvingSystem, cs *c07Case) (pr *prover.Proof, err error, panicked any) {
	defer func() {
		if r := recover(); r != nil {
			panicked = r
		}
	}()
	if cs.Mode == "insertion" {
		pr, err = ps.ProveInsertion(cs.Ins.params())
	} else {
		pr, err = ps.ProveDeletion(cs.Del.params())
	}
	return
}

func safeVerify(ps *prover.ProvingSystem, mode string, h *big.Int, pr *prover.Proof) (err error) {
	defer func() {
		if r := recover(); r != nil {
			err = fmt.Errorf("panic: %v", r)
		}
	}()
	if mode == "insertion" {
		return ps.VerifyInsertion(*h, pr)
	}
	return ps.VerifyDeletion(*h, pr)
}

// c07Eval returns the list of (key, message) violations for one parameter set.
func c07Eval(cs *c07Case, st *c07Stats, otherHashes []*big.Int) [][2]string {
	var out [][2]string
	bad := func(k, m string) {
		out = append(out, [2]string{fmt.Sprintf("%s|%s d=%d b=%d|%s", k, cs.Mode, cs.D, cs.B, cs.Why), m})
	}
	ps, err := getSystem(cs.Mode, cs.D, cs.B, 0)
	if err != nil {
		return [][2]string{{"setup", err.Error()}}
	}
	pr, perr, pan := safeProve(ps, cs)
	st.mu.Lock()
	st.proves++
	st.mu.Unlock()
	if pan != nil {
		bad("prove-panic", fmt.Sprintf("Prove panicked: %v", pan))
		return out
	}
	if !cs.Valid {
		if perr == nil || pr != nil {
			bad("proof-for-invalid", fmt.Sprintf("prover returned proof=%v err=%v for parameters that do not describe a valid batch of these dimensions (%s)", pr != nil, perr, cs.Why))
		}
		return out
	}
	if perr != nil || pr == nil {
		bad("no-proof-for-valid", fmt.Sprintf("prover returned err=%v for a valid batch (%s)", perr, cs.Why))
		return out
	}
	st.mu.Lock()
	st.proofs++
	st.mu.Unlock()
	var h *big.Int
	if cs.Mode == "insertion" {
		h = bigs(cs.Ins.Hash)
	} else {
		h = bigs(cs.Del.Hash)
	}
	hr := new(big.Int).Mod(h, ref.R)
	type cand struct {
		v      *big.Int
		accept bool
		name   string
	}
	cands := []cand{{h, true, "hash"}, {hr, true, "hash mod r"}, {new(big.Int).Add(hr, ref.R), true, "hash mod r + r"}, {new(big.Int).Add(hr, new(big.Int).Mul(ref.R, ref.B(3))), true, "hash mod r + 3r"},
		{new(big.Int).Add(h, ref.B(1)), false, "hash+1"}, {new(big.Int).Sub(h, ref.B(1)), false, "hash-1"}, {new(big.Int).Xor(h, ref.Pow2(255)), false, "hash xor 2^255"}, {ref.B(0), false, "0"}, {new(big.Int).Sub(ref.R, ref.B(1)), false, "r-1"}, {new(big.Int).Xor(h, ref.B(2)), false, "hash xor 2"}}
	for i, o := range otherHashes {
		if new(big.Int).Mod(o, ref.R).Cmp(hr) != 0 {
			cands = append(cands, cand{o, false, fmt.Sprintf("hash of another batch #%d", i)})
		}
	}
	for _, cd := range cands {
		ve := safeVerify(ps, cs.Mode, cd.v, pr)
		st.mu.Lock()
		st.verifies++
		if ve == nil {
			st.accepts++
		} else {
			st.rejects++
		}
		st.mu.Unlock()
		if cd.accept && ve != nil {
			bad("own-hash-rejected", fmt.Sprintf("proof rejected for public input %s: %v", cd.name, ve))
		}
		if !cd.accept && ve == nil {
			bad("foreign-input-accepted", fmt.Sprintf("proof accepted for public input %s", cd.name))
		}
	}
	// other mode's system at the same dimensions
	om := "deletion"
	if cs.Mode == "deletion" {
		om = "insertion"
	}
	if ops, err := getSystem(om, cs.D, cs.B, 0); err == nil {
		if ve := safeVerify(ops, om, h, pr); ve == nil {
			bad("other-mode-accepts", "proof accepted by the proving system of the other mode")
		} else {
			st.mu.Lock()
			st.crossRejects++
			st.mu.Unlock()
		}
	}
	return out
}

func c07Body(c *ev.Ctx) {
	quick := c.Quick()
	dims := [][2]int{{2, 2}}
	if !quick {
		dims = [][2]int{{2, 2}, {1, 1}, {3, 2}}
	}
	st := &c07Stats{}
	var evals int64
	classes := map[string]bool{}
	for _, dm := range dims {
		d, b := dm[0], dm[1]
		var wg sync.WaitGroup
		for _, m := range []string{"insertion", "deletion"} {
			wg.Add(1)
			go func(m string) {
				defer wg.Done()
				if _, err := getSystem(m, d, b, 0); err != nil {
					c.HarnessError("setup %s: %v", m, err)
				}
			}(m)
		}
		wg.Wait()
		c.Logf("setups done for (%d,%d)", d, b)
		var cases []c07Case
		var insHashes, delHashes []*big.Int
		vi := validInsBatches(d, b)
		vd := validDelBatches(d, b)
		for _, x := range vi {
			insHashes = append(insHashes, bigs(x.Hash))
		}
		for _, x := range vd {
			delHashes = append(delHashes, bigs(x.Hash))
		}
		cp2 := func(p [][]string) [][]string {
			o := make([][]string, len(p))
			for i := range p {
				o[i] = append([]string{}, p[i]...)
			}
			return o
		}
		for bi := range vi {
			base := vi[bi]
			add := func(x insBatch, why string, valid bool) {
				cases = append(cases, c07Case{Mode: "insertion", D: d, B: b, Ins: &x, Why: why, Valid: valid})
			}
			add(base, fmt.Sprintf("valid batch #%d", bi), true)
			p := base
			p.Hash = inc(base.Hash)
			add(p, "inputHash+1", false)
			p = base
			p.Start = fmt.Sprint(bigs(base.Start).Int64() + 1)
			add(p, "startIndex+1", false)
			p = base
			p.Pre = inc(base.Pre)
			add(p, "preRoot+1", false)
			p = base
			p.Post = inc(base.Post)
			add(p, "postRoot+1", false)
			for i := range base.Comms {
				p = base
				p.Comms = append([]string{}, base.Comms...)
				p.Comms[i] = inc(base.Comms[i])
				add(p, fmt.Sprintf("commitment[%d]+1", i), false)
			}
			for i := range base.Proofs {
				for j := range base.Proofs[i] {
					p = base
					p.Proofs = cp2(base.Proofs)
					p.Proofs[i][j] = inc(base.Proofs[i][j])
					add(p, fmt.Sprintf("merkleProofs[%d][%d]+1", i, j), false)
				}
			}
			// shape perturbations
			p = base
			p.Comms = base.Comms[:len(base.Comms)-1]
			add(p, "one commitment fewer", false)
			p = base
			p.Comms = append(append([]string{}, base.Comms...), "5")
			add(p, "one commitment more", false)
			p = base
			p.Comms = nil
			add(p, "no commitments", false)
			p = base
			p.Proofs = base.Proofs[:len(base.Proofs)-1]
			add(p, "one merkle proof fewer", false)
			p = base
			p.Proofs = append(cp2(base.Proofs), base.Proofs[0])
			add(p, "one merkle proof more", false)
			p = base
			p.Proofs = nil
			add(p, "no merkle proofs", false)
			for i := range base.Proofs {
				p = base
				p.Proofs = cp2(base.Proofs)
				p.Proofs[i] = p.Proofs[i][:len(p.Proofs[i])-1]
				add(p, fmt.Sprintf("merkleProofs[%d] one element fewer", i), false)
				p = base
				p.Proofs = cp2(base.Proofs)
				p.Proofs[i] = append(p.Proofs[i], "0")
				add(p, fmt.Sprintf("merkleProofs[%d] one element more", i), false)
				p = base
				p.Proofs = cp2(base.Proofs)
				p.Proofs[i] = nil
				add(p, fmt.Sprintf("merkleProofs[%d] empty", i), false)
			}
		}
		for bi := range vd {
			base := vd[bi]
			add := func(x delBatch, why string, valid bool) {
				cases = append(cases, c07Case{Mode: "deletion", D: d, B: b, Del: &x, Why: why, Valid: valid})
			}
			add(base, fmt.Sprintf("valid batch #%d", bi), true)
			p := base
			p.Hash = inc(base.Hash)
			add(p, "inputHash+1", false)
			p = base
			p.Pre = inc(base.Pre)
			add(p, "preRoot+1", false)
			p = base
			p.Post = inc(base.Post)
			add(p, "postRoot+1", false)
			for i := range base.Idx {
				p = base
				p.Idx = append([]string{}, base.Idx...)
				p.Idx[i] = fmt.Sprint(bigs(base.Idx[i]).Int64() + 1)
				add(p, fmt.Sprintf("deletionIndices[%d]+1", i), false)
				isPad := bigs(base.Idx[i]).Int64() >= int64(1<<uint(d))
				if !isPad {
					p = base
					p.Items = append([]string{}, base.Items...)
					p.Items[i] = inc(base.Items[i])
					add(p, fmt.Sprintf("identityCommitments[%d]+1", i), false)
					p = base
					p.Proofs = cp2(base.Proofs)
					p.Proofs[i][0] = inc(base.Proofs[i][0])
					add(p, fmt.Sprintf("merkleProofs[%d][0]+1", i), false)
				}
			}
			p = base
			p.Idx = base.Idx[:len(base.Idx)-1]
			add(p, "one deletion index fewer", false)
			p = base
			p.Idx = append(append([]string{}, base.Idx...), "0")
			add(p, "one deletion index more", false)
			p = base
			p.Idx = nil
			add(p, "no deletion indices", false)
			p = base
			p.Items = base.Items[:len(base.Items)-1]
			add(p, "one commitment fewer", false)
			p = base
			p.Items = nil
			add(p, "no commitments", false)
			p = base
			p.Proofs = base.Proofs[:len(base.Proofs)-1]
			add(p, "one merkle proof fewer", false)
			p = base
			p.Proofs = nil
			add(p, "no merkle proofs", false)
			for i := range base.Proofs {
				p = base
				p.Proofs = cp2(base.Proofs)
				p.Proofs[i] = p.Proofs[i][:len(p.Proofs[i])-1]
				add(p, fmt.Sprintf("merkleProofs[%d] one element fewer", i), false)
				p = base
				p.Proofs = cp2(base.Proofs)
				p.Proofs[i] = append(p.Proofs[i], "0")
				add(p, fmt.Sprintf("merkleProofs[%d] one element more", i), false)
			}
		}
		for i, x := range nearValidInsBatches(d, b) {
			xx := x
			cases = append(cases, c07Case{Mode: "insertion", D: d, B: b, Ins: &xx, Why: fmt.Sprintf("near-valid batch #%d (start %s: positions past the end / occupied leaf, wrapped-around paths)", i, x.Start), Valid: false})
		}
		for i, x := range nearValidDelBatches(d, b) {
			xx := x
			cases = append(cases, c07Case{Mode: "deletion", D: d, B: b, Del: &xx, Why: fmt.Sprintf("near-valid batch #%d (indices %v: padding or too-high index with a genuine membership proof / wrong post-root)", i, x.Idx), Valid: false})
		}
		// dimensions of another system: a valid batch for (d, b) offered to nothing else here;
		// a valid batch of other dimensions offered to this system
		if d >= 2 {
			for _, x := range validInsBatches(d-1, b) {
				xx := x
				cases = append(cases, c07Case{Mode: "insertion", D: d, B: b, Ins: &xx, Why: "valid batch of depth-1 dimensions", Valid: false})
				break
			}
			for _, x := range validDelBatches(d, b+1) {
				xx := x
				cases = append(cases, c07Case{Mode: "deletion", D: d, B: b, Del: &xx, Why: "valid batch of batch+1 dimensions", Valid: false})
				break
			}
		}
		done := par.For(len(cases), func(i int) {
			oh := insHashes
			if cases[i].Mode == "deletion" {
				oh = delHashes
			}
			for _, v := range c07Eval(&cases[i], st, oh) {
				c.Violation(v[0], v[1], cases[i])
			}
		}, func() bool { return c.Expired() })
		evals += int64(done)
		if done < len(cases) {
			c.Cap(fmt.Sprintf("dims (%d,%d): %d of %d parameter sets", d, b, done, len(cases)))
		}
		for _, cs := range cases {
			classes[cs.Mode+"|"+cs.Why] = true
		}
		c.Sample(cases[0])
		c.Sample(cases[len(cases)/2])
		c.Logf("dims (%d,%d): %d parameter sets", d, b, len(cases))
	}
	c.Set("evaluations", evals+st.verifies)
	c.Set("parameter_sets", evals)
	c.Set("proofs_generated", st.proofs)
	c.Set("verify_calls", st.verifies)
	c.Set("verify_accepts", st.accepts)
	c.Set("verify_rejects", st.rejects)
	c.Set("other_mode_rejects", st.crossRejects)
	c.Set("distinct_nontrivial", int64(len(classes)))
	if len(c.CapsHit()) == 0 {
		c.Set("exhaustive", true)
	}
	runPairIsolation(c, c07Pairs())
	c.Set("rule", "per (mode, dims): valid batches from several tree states (empty, holes, last leaf, duplicates, padding with garbage) and, for each, every single-field perturbation (+1) and every shape perturbation (each array one fewer / one more / empty, each inner proof shorter / longer / empty) and batches of other dimensions; each returned proof is verified against a menu of public inputs (hash, hash mod r, +r, +3r must accept; +-1, bit flips, 0, r-1, other batches' hashes must reject) and against the other mode's system; distinct = (mode, perturbation kind) classes")
	c.Assume("Groth16 soundness is not in scope: 'rejected for every other public input' is enumerated on the candidate menu")
}

// c07Pairs: two callers of the prover on ONE proving system at the same time, whose parameter sets collide
// on the input hash (and everything else but one sibling): the valid one must get a verifying proof, the
// invalid one an error, whatever the interleaving.
func c07Pairs() []pairScenario {
	ps, err := getSystem("insertion", 1, 1, 0)
	if err != nil {
		return nil
	}
	vb := validInsBatches(1, 1)
	if len(vb) == 0 {
		return nil
	}
	good := vb[0]
	bad := good
	bad.Proofs = [][]string{{ref.BN.Mod(new(big.Int).Add(bigs(good.Proofs[0][0]), ref.B(1))).String()}}
	run := func(b *insBatch) (out string) {
		defer func() {
			if r := recover(); r != nil {
				out = fmt.Sprintf("panic: %v", r)
			}
		}()
		proof, err := ps.ProveInsertion(b.params())
		if err != nil {
			return "error, no proof"
		}
		if proof == nil {
			return "no error, no proof"
		}
		if e := ps.VerifyInsertion(*bigs(b.Hash), proof); e != nil {
			return "proof that does not verify for the parameters' input hash"
		}
		return "proof that verifies for the parameters' input hash"
	}
	return []pairScenario{{Name: "ProveInsertion: valid batch next to an invalid one with the same input hash, one proving system", MaxBound: 1, Parallel: true, F: func(i int) string {
		if i == 0 {
			return run(&good)
		}
		return run(&bad)
	}}}
}
