//go:build verif

package checks

import (
	"encoding/json"
	"fmt"
	"strings"
	"sync"
	"time"

	"verif/harness/ev"
)

// ---- C14: the command-line server and real signals -----------------------------

// c14E2E returns the number of end-to-end runs whose observations were judged.
func c14E2E(c *ev.Ctx) (judged int64) {
	mode := "deletion"
	ps, err := getSystem(mode, 1, 1, 0)
	if err != nil {
		c.HarnessError("%v", err)
	}
	vb := validDelBatches(1, 1)
	body := []byte(mustJSON(delDoc(&vb[0])))
	hash := bigs(vb[0].Hash)
	stopAndCheck := func(s *e2eServer, what string) bool {
		exit, ok := s.interrupt()
		if !ok {
			c.Violation("e2e|no-exit|"+what, "the server does not exit after SIGINT ("+what+")", nil)
			return false
		}
		if exit != 0 {
			c.Violation("e2e|exit-status|"+what, fmt.Sprintf("the server exits with status %d after SIGINT (%s): %s", exit, what, tailStr(s.stderr.Bytes())), nil)
			return false
		}
		if !canBind(s.prover) || !canBind(s.metric) {
			c.Violation("e2e|address-bound-after-exit|"+what, "an address cannot be bound right after the process exited", nil)
			return false
		}
		return true
	}
	// E1 + E3: SIGINT right after the ports open, two cycles on the same addresses
	pa, ma := freeTCP(), freeTCP()
	for cyc := 0; cyc < 2; cyc++ {
		s, err := startE2E(mode, pa, ma)
		if err != nil {
			c.Violation("e2e|restart", fmt.Sprintf("cycle %d on the same addresses: %v", cyc, err), nil)
			return
		}
		if stopAndCheck(s, fmt.Sprintf("idle, cycle %d", cyc)) {
			judged++
		}
	}
	// E2: SIGINT while k = 1, 2, 3 prove requests are in flight (established by observing the in-flight
	// gauge; several at once so that requests queued behind a limited resource are in the picture too)
	vacuous := 0
	for _, k := range []int{1, 2, 3} {
		done := false
		for attempt := 0; attempt < 4 && !done; attempt++ {
			s, err := startE2E(mode, "", "")
			if err != nil {
				c.HarnessError("e2e start: %v", err)
			}
			res := make(chan *e2eResp, k)
			for i := 0; i < k; i++ {
				go func() { res <- e2eDo("POST", "http://"+s.prover+"/prove", body) }()
			}
			inflight := false
			var early []*e2eResp
			for i := 0; i < 3000 && !inflight && len(early) == 0; i++ {
				select {
				case r := <-res:
					early = append(early, r)
					continue
				default:
				}
				m := e2eDo("GET", "http://"+s.metric+"/metrics", nil)
				for _, v := range metricLines(m.Body, "http_requests_in_flight") {
					if v == fmt.Sprint(k) {
						inflight = true
					}
				}
			}
			if !inflight {
				// a response arrived before all k were seen in flight: not the situation to judge
				for i := len(early); i < k; i++ {
					<-res
				}
				s.interrupt()
				vacuous++
				continue
			}
			exitCh := make(chan [2]int, 1)
			go func() {
				e, ok := s.interrupt()
				o := 0
				if ok {
					o = 1
				}
				exitCh <- [2]int{e, o}
			}()
			var rs []*e2eResp
			for i := 0; i < k; i++ {
				rs = append(rs, <-res)
			}
			ex := <-exitCh
			what := fmt.Sprintf("%d in flight", k)
			for _, r := range rs {
				if r.class() != "200" {
					c.Violation("e2e|in-flight-request-dropped", fmt.Sprintf("a prove request that was in flight (%s) when SIGINT arrived did not receive its full response: %s", what, r.class()), nil)
					return
				}
				pr, err := decodeProofIndependently(r.Body)
				if err != nil || safeVerify(ps, mode, hash, pr) != nil {
					c.Violation("e2e|in-flight-proof-invalid", "the response completed during shutdown ("+what+") is not a verifying proof", nil)
					return
				}
			}
			if ex[1] == 0 || ex[0] != 0 {
				c.Violation("e2e|exit-status|in flight", fmt.Sprintf("exit status %d after SIGINT with %s", ex[0], what), nil)
				return
			}
			if !canBind(s.prover) || !canBind(s.metric) {
				c.Violation("e2e|address-bound-after-exit|in flight", "an address cannot be bound right after the process exited ("+what+")", nil)
				return
			}
			judged++
			done = true
		}
	}
	c.Set("e2e_sigint_runs_judged", judged)
	c.Set("e2e_runs_where_the_overlap_did_not_materialise", int64(vacuous))
	return
}

// ---- C09: a subset of the request table over real sockets -----------------------

func c09E2E(c *ev.Ctx) (validated int64) {
	for _, mode := range []string{"deletion", "insertion"} {
		ps, err := getSystem(mode, 1, 1, 0)
		if err != nil {
			c.HarnessError("%v", err)
		}
		L := c13Letters(mode)
		base := L["valid1"].Body
		reqs := []httpReq{L["GET"], {"PUT", base, "PUT"}, {"DELETE", "", "DELETE"}, L["valid1"], L["valid2"], L["unsat"], L["wrongdims"], L["nonnumeric"],
			{"POST", "", "empty"}, {"POST", "not json", "notjson"}, {"POST", base[:len(base)/2], "cut in half"}, {"POST", base[:len(base)-1], "cut one byte short"},
			{"POST", "[]", "array"}, {"POST", "null", "null"}, {"POST", `{"inputHash":7}`, "number as hash"}, {"POST", strings.Replace(base, `"preRoot":"0x`, `"preRoot":"0X`, 1), "0X prefix"},
			{"POST", base + base, "two documents"}, L["valid1"], L["GET"]}
		s, err := startE2E(mode, "", "")
		if err != nil {
			c.HarnessError("e2e start: %v", err)
		}
		for _, rq := range reqs {
			r := e2eDo(rq.Method, "http://"+s.prover+"/prove", []byte(rq.Body))
			got := r.class()
			want := refHTTP(mode, 1, 1, rq.Method, []byte(rq.Body))
			ok := false
			for _, w := range want {
				ok = ok || w == got
			}
			if !ok {
				c.Violation(fmt.Sprintf("e2e|wrong-response|%s|%s|%s", mode, rq.Why, got), fmt.Sprintf("real binary, %s %s /prove [%s] answered %q, documented %v", mode, rq.Method, rq.Why, got, want), c09Case{Mode: mode, D: 1, B: 1, Seq: []httpReq{rq}})
				continue
			}
			if got == "200" {
				pr, err := decodeProofIndependently(r.Body)
				if err != nil || safeVerify(ps, mode, reqHash(rq.Body), pr) != nil {
					c.Violation("e2e|proof-does-not-verify|"+mode+"|"+rq.Why, "real binary: 200 body is not a proof verifying for the request's input hash", nil)
					continue
				}
			}
			validated++
		}
		if exit, ok := s.interrupt(); !ok || exit != 0 {
			c.Violation("e2e|server-exit|"+mode, fmt.Sprintf("server did not exit cleanly after the request table (exit %d)", exit), nil)
		}
	}
	return
}

// ---- C20: real metrics endpoint under concurrent load ------------------------------

func c20E2E(c *ev.Ctx) (validated int64) {
	mode := "deletion"
	L := c13Letters(mode)
	letters := []httpReq{L["GET"], {"HEAD", "", "HEAD"}, {"PUT", "x", "PUT"}, L["valid1"], L["unsat"], {"POST", "not json", "notjson"}, L["valid2"], L["nonnumeric"]}
	s, err := startE2E(mode, "", "")
	if err != nil {
		c.HarnessError("e2e start: %v", err)
	}
	tally := map[string]int{}
	var mu sync.Mutex
	var wg sync.WaitGroup
	stop := make(chan struct{})
	scrapes, scrapeFail := 0, ""
	wg.Add(1)
	go func() {
		defer wg.Done()
		for {
			select {
			case <-stop:
				return
			default:
			}
			m := e2eDo("GET", "http://"+s.metric+"/metrics", nil)
			if m.Err != "" || m.Status != 200 {
				scrapeFail = fmt.Sprintf("status %d %s", m.Status, m.Err)
			} else if _, err := parseScrape(m.Body); err != nil {
				scrapeFail = err.Error()
			}
			scrapes++
			time.Sleep(5 * time.Millisecond)
		}
	}()
	var cw sync.WaitGroup
	for k := 0; k < 3; k++ {
		cw.Add(1)
		go func(k int) {
			defer cw.Done()
			for i := 0; i < 6; i++ {
				rq := letters[(k*3+i*5)%len(letters)]
				r := e2eDo(rq.Method, "http://"+s.prover+"/prove", []byte(rq.Body))
				if r.Err != "" {
					mu.Lock()
					scrapeFail = "request failed: " + r.Err
					mu.Unlock()
					continue
				}
				mu.Lock()
				tally[tallyKey(rq.Method, r.Status)]++
				mu.Unlock()
			}
		}(k)
	}
	cw.Wait()
	close(stop)
	wg.Wait()
	if scrapeFail != "" {
		c.Violation("e2e|metrics-unavailable", "real binary: the metrics endpoint failed while proofs were being generated: "+scrapeFail, nil)
	}
	m := e2eDo("GET", "http://"+s.metric+"/metrics", nil)
	sc, err := parseScrape(m.Body)
	if err != nil {
		c.Violation("e2e|metrics-parse", err.Error(), nil)
	} else {
		for k, v := range tally {
			if sc.Totals[k] != float64(v) {
				c.Violation("e2e|totals|"+k, fmt.Sprintf("real binary: http_requests_total{%s} = %v, responses received = %d (all: %v vs %v)", k, sc.Totals[k], v, sc.Totals, tally), nil)
			} else {
				validated++
			}
		}
		for k, v := range sc.Totals {
			if _, ok := tally[k]; !ok && v != 0 {
				c.Violation("e2e|totals-extra|"+k, fmt.Sprintf("real binary: %v responses reported for (%s), none received", v, k), nil)
			}
		}
		if sc.InFlight != 0 || !sc.HasGauge {
			c.Violation("e2e|in-flight", fmt.Sprintf("real binary: in-flight gauge %v after all requests completed", sc.InFlight), nil)
		}
	}
	c.Set("e2e_scrapes_during_load", int64(scrapes))
	s.interrupt()
	js, _ := json.Marshal(tally)
	c.Set("e2e_tally", string(js))
	return
}
