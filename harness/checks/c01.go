package checks

import (
	"encoding/json"
	"fmt"
	"math/big"
	"strings"
	"sync"
	"sync/atomic"
	"time"

	"verif/harness/ev"
	"verif/harness/gad"
	"verif/harness/par"
	"verif/harness/r1csmc"
	"verif/harness/ref"
)

type c01Case struct {
	Kind  string            `json:"kind"` // tiny-round | tiny-proof | full-small | gadget-bn | full-bn
	Depth int               `json:"depth,omitempty"`
	Vals  map[string]uint64 `json:"vals,omitempty"`
	P     int64             `json:"p,omitempty"`
	B     *insBatch         `json:"batch,omitempty"`
	Dev   int               `json:"dev,omitempty"`
}

func init() {
	Registry["C01"] = func() {
		ev.Main("C01", "model_checking", 240*time.Second, 40*time.Minute, c01Body, func(c *ev.Ctx, raw json.RawMessage) {
			var cs c01Case
			if err := json.Unmarshal(raw, &cs); err != nil {
				c.HarnessError("%v", err)
			}
			got, want, err := c01Eval(&cs, nil, nil)
			if err != nil {
				c.HarnessError("%v", err)
			}
			fmt.Printf("replay: got=%s want=%s\n", got, want)
			if got != want {
				c.Violation("replay", fmt.Sprintf("got %s, want %s", got, want), cs)
			}
		})
	}
}

var tinySysCache sync.Map

func tinyInsRound(d int) (*r1csmc.Sys[uint64, r1csmc.Small], error) {
	k := fmt.Sprintf("insround-%d", d)
	if v, ok := tinySysCache.Load(k); ok {
		return v.(*r1csmc.Sys[uint64, r1csmc.Small]), nil
	}
	s, err := r1csmc.CompileTiny(&gad.InsRound{Proof: gad.Vars(d), Depth: d})
	if err == nil {
		tinySysCache.Store(k, s)
	}
	return s, err
}

func tinyInsProof(d, b int) (*r1csmc.Sys[uint64, r1csmc.Small], error) {
	k := fmt.Sprintf("insproof-%d-%d", d, b)
	if v, ok := tinySysCache.Load(k); ok {
		return v.(*r1csmc.Sys[uint64, r1csmc.Small]), nil
	}
	s, err := r1csmc.CompileTiny(&gad.InsProof{IdComms: gad.Vars(b), Proofs: gad.Vars2(b, d), Depth: d, Batch: b})
	if err == nil {
		tinySysCache.Store(k, s)
	}
	return s, err
}

var f47 = ref.NewField(big.NewInt(47))

func u(x uint64) *big.Int { return new(big.Int).SetUint64(x) }

// c01Eval evaluates one case on the implementation and on the reference.
func c01Eval(cs *c01Case, ts *tinyStats, bs *bnStats) (got, want string, err error) {
	switch cs.Kind {
	case "tiny-round":
		sys, err := tinyInsRound(cs.Depth)
		if err != nil {
			return "", "", err
		}
		outs, err := tinyRun(sys, cs.Vals, "Out", ts)
		if err != nil {
			return "", "", err
		}
		proof := make([]*big.Int, cs.Depth)
		for i := range proof {
			proof[i] = u(cs.Vals[fmt.Sprintf("Proof_%d", i)])
		}
		idx := cs.Vals["Index"]
		want = "[]"
		if idx < 1<<uint(cs.Depth) && f47.Path(new(big.Int), proof, idx).Cmp(u(cs.Vals["Prev"])) == 0 {
			want = fmt.Sprintf("[%d]", f47.Path(u(cs.Vals["Item"]), proof, idx).Uint64())
		}
		return fmt.Sprint(outs), want, nil
	case "tiny-proof":
		b := len(cs.Vals)/2 - 1 // Start, Pre, b comms, b*d proofs with d = Depth
		b = (len(cs.Vals) - 2) / (1 + cs.Depth)
		sys, err := tinyInsProof(cs.Depth, b)
		if err != nil {
			return "", "", err
		}
		outs, err := tinyRun(sys, cs.Vals, "Out", ts)
		if err != nil {
			return "", "", err
		}
		comms := make([]*big.Int, b)
		paths := make([][]*big.Int, b)
		for i := 0; i < b; i++ {
			comms[i] = u(cs.Vals[fmt.Sprintf("IdComms_%d", i)])
			paths[i] = make([]*big.Int, cs.Depth)
			for j := range paths[i] {
				paths[i][j] = u(cs.Vals[fmt.Sprintf("Proofs_%d_%d", i, j)])
			}
		}
		_, run := f47.Insertion(cs.Depth, u(cs.Vals["Pre"]), u(cs.Vals["Start"]), comms, paths, nil)
		want = "[]"
		if run != nil {
			want = fmt.Sprintf("[%d]", run.Uint64())
		}
		return fmt.Sprint(outs), want, nil
	case "full-small", "full-engine-bn":
		f := ref.BN
		if cs.Kind == "full-small" {
			f = fieldFor(fmt.Sprint(cs.P))
		}
		shape, asg := cs.B.reduced(f).circuits()
		e := gad.Solved(shape, asg, f.P)
		got = "reject"
		if e == nil {
			got = "accept"
		}
		return got, c01Want(f, cs.B), nil
	case "gadget-bn":
		b := cs.B
		n := len(b.Comms)
		shape := &gad.InsProof{IdComms: gad.Vars(n), Proofs: gad.Vars2(n, b.Depth), Depth: b.Depth, Batch: n}
		asg := &gad.InsProof{Start: bigs(b.Start), Pre: bigs(b.Pre), Out: bigs(b.Post), IdComms: fv(ints(b.Comms)), Proofs: fv2(ints2(b.Proofs))}
		e := gad.Solved(shape, asg, ref.R)
		got = "reject"
		if e == nil {
			got = "accept"
		}
		ok, _ := ref.BN.Insertion(b.Depth, bigs(b.Pre), bigs(b.Start), ints(b.Comms), ints2(b.Proofs), bigs(b.Post))
		want = "reject"
		if ok {
			want = "accept"
		}
		return got, want, nil
	case "full-bn":
		sys, _, err := bnInsertionSys(cs.B.Depth, len(cs.B.Comms))
		if err != nil {
			return "", "", err
		}
		_, asg := cs.B.circuits()
		hon, adv, err := bnSolve(sys, asg, cs.Dev, []int{0, 1, 30}, bs)
		if err != nil {
			return "", "", err
		}
		want = c01Want(ref.BN, cs.B)
		got = "reject"
		if hon > 0 {
			got = "accept"
		}
		if want == "reject" && adv > 0 {
			got = fmt.Sprintf("accept-with-forged-hints(%d)", adv)
		}
		return got, want, nil
	}
	return "", "", fmt.Errorf("unknown case kind %q", cs.Kind)
}

// c01Want: the relation of the statement for the full circuit: hash matches the
// canonical packing (mod p) and the batch is a valid append.
func c01Want(f *ref.Field, b *insBatch) string {
	h, ok := b.refHash(f)
	if !ok || f.Mod(h).Cmp(f.Mod(bigs(b.Hash))) != 0 {
		return "reject"
	}
	if ok, _ := f.Insertion(b.Depth, bigs(b.Pre), bigs(b.Start), ints(b.Comms), ints2(b.Proofs), bigs(b.Post)); ok {
		return "accept"
	}
	return "reject"
}

type caseRunner struct {
	c                  *ev.Ctx
	ts                 tinyStats
	bs                 bnStats
	mu                 sync.Mutex
	evals              int64
	accepted, rejected int64
	outcomes           map[string]int64
}

func (r *caseRunner) run(label string, cases []c01Case) bool {
	return runCases(r, label, cases, c01Eval)
}

func runCases[T any](r *caseRunner, label string, cases []T, eval func(*T, *tinyStats, *bnStats) (string, string, error)) bool {
	c := r.c
	if c.NViolations() > 0 {
		c.Cap("stopped after first violating part; skipped: " + label)
		return false
	}
	var acc, rej, capped int64
	var tsm sync.Mutex
	done := par.For(len(cases), func(i int) {
		var ts tinyStats
		got, want, err := eval(&cases[i], &ts, &r.bs)
		if err == errNodeCap {
			// not decided for this input: reported as a cap, never as a verdict; the part is given
			// up after a few of them (each costs millions of search nodes)
			if atomic.AddInt64(&capped, 1) == 1 {
				c.Cap(label + ": R1CS search abandoned for some inputs (node cap): those inputs are not decided here")
			}
			return
		}
		if err != nil {
			// a gadget of the tree under check that cannot be compiled / panics in Define is a
			// verdict about that tree (it never happens on the unchanged tree); anything else is ours
			if m := err.Error(); strings.Contains(m, "parse circuit") || strings.Contains(m, "runtime error") || strings.Contains(m, "panic") {
				c.Violation(label+"|crash", fmt.Sprintf("%s: the gadget/circuit cannot be built or evaluated: %.300s", label, m), cases[i])
				return
			}
			c.HarnessError("%s: %v", label, err)
		}
		tsm.Lock()
		r.ts.Nodes += ts.Nodes
		r.ts.Edges += ts.Edges
		r.ts.Branches += ts.Branches
		r.ts.Survived += ts.Survived
		tsm.Unlock()
		if want == "reject" || want == "[]" {
			atomic.AddInt64(&rej, 1)
		} else {
			atomic.AddInt64(&acc, 1)
		}
		if got != want {
			raw, _ := json.Marshal(cases[i])
			c.Violation(label+"|"+string(raw), fmt.Sprintf("%s: implementation %s, reference %s", label, got, want), cases[i])
		}
	}, func() bool { return c.Expired() || c.NViolations() >= 5 || atomic.LoadInt64(&capped) > 40 })
	r.mu.Lock()
	r.evals += int64(done)
	r.accepted += acc
	r.rejected += rej
	r.outcomes[label+":valid"] += acc
	r.outcomes[label+":invalid"] += rej
	r.mu.Unlock()
	c.Logf("%s: %d/%d cases, %d valid, %d invalid", label, done, len(cases), acc, rej)
	if done < len(cases) {
		c.Cap(fmt.Sprintf("%s: %d of %d cases", label, done, len(cases)))
		return false
	}
	if len(cases) > 0 {
		c.Sample(cases[len(cases)/3])
	}
	return true
}

func (r *caseRunner) finish(level string) {
	c := r.c
	c.Set("evaluations", r.evals)
	c.Set("states", r.ts.Nodes+r.bs.Nodes+r.evals)
	c.Set("transitions", r.ts.Edges+r.bs.Edges+r.evals)
	c.Set("traces_validated_against_impl", r.evals)
	c.Set("r1cs_search_nodes", r.ts.Nodes+r.bs.Nodes)
	c.Set("r1cs_search_edges", r.ts.Edges+r.bs.Edges)
	c.Set("adversary_choice_points", r.ts.Branches+r.bs.Branches)
	c.Set("adversary_values_surviving_a_constraint", r.ts.Survived+r.bs.Surv)
	c.Set("bn254_hint_deviations_tried", r.bs.Deviated)
	c.Set("cases_reference_valid", r.accepted)
	c.Set("cases_reference_invalid", r.rejected)
	c.Set("distinct_nontrivial", r.accepted)
	c.Set("outcomes", r.outcomes)
	if len(r.c.CapsHit()) == 0 {
		c.Set("exhaustive", true)
	}
}

func c01Body(c *ev.Ctx) {
	r := &caseRunner{c: c, outcomes: map[string]int64{}}
	quick := c.Quick()

	// ---- part 1: dishonest prover over the whole 47-element field -------------
	{
		var cases []c01Case
		for idx := uint64(0); idx < 47; idx++ {
			for item := uint64(0); item < 47; item++ {
				if quick && item > 5 && item != 46 && item != 23 {
					continue
				}
				for prev := uint64(0); prev < 47; prev++ {
					for p0 := uint64(0); p0 < 47; p0++ {
						cases = append(cases, c01Case{Kind: "tiny-round", Depth: 1, Vals: map[string]uint64{"Index": idx, "Item": item, "Prev": prev, "Proof_0": p0}})
					}
				}
			}
		}
		r.run("F47 InsertionRound d=1 (all hint values)", cases)
		cases = nil
		sub := []uint64{0, 1, 2, 5, 23, 46}
		// d=2: Index, Prev, Proof_0 over the whole field; Item and Proof_1 over the sub-alphabet
		for idx := uint64(0); idx < 47; idx++ {
			for _, item := range sub {
				if quick && item > 1 {
					continue
				}
				for prev := uint64(0); prev < 47; prev++ {
					for p0 := uint64(0); p0 < 47; p0++ {
						for _, p1 := range sub {
							if quick && p1 > 2 {
								continue
							}
							cases = append(cases, c01Case{Kind: "tiny-round", Depth: 2, Vals: map[string]uint64{"Index": idx, "Item": item, "Prev": prev, "Proof_0": p0, "Proof_1": p1}})
						}
					}
				}
			}
		}
		r.run("F47 InsertionRound d=2", cases)
		cases = nil
		// InsertionProof b=2,d=1: Start over the whole field, Pre over the whole field, rest over sub-alphabet
		for start := uint64(0); start < 47; start++ {
			for pre := uint64(0); pre < 47; pre++ {
				for _, c0 := range sub {
					for _, c1 := range sub {
						for _, p0 := range sub {
							for _, p1 := range sub {
								if quick && (c1 > 2 || c0 > 5) {
									continue
								}
								cases = append(cases, c01Case{Kind: "tiny-proof", Depth: 1, Vals: map[string]uint64{"Start": start, "Pre": pre, "IdComms_0": c0, "IdComms_1": c1, "Proofs_0_0": p0, "Proofs_1_0": p1}})
							}
						}
					}
				}
			}
		}
		r.run("F47 InsertionProof d=1 b=2", cases)
	}

	// ---- part 2: full Define (Keccak included) over whole small fields ---------
	primes := []int64{5}
	if !quick {
		primes = append(primes, 7)
	}
	for _, p := range primes {
		f := ref.NewField(big.NewInt(p))
		var cases []c01Case
		for s := int64(0); s < p; s++ {
			for pre := int64(0); pre < p; pre++ {
				for post := int64(0); post < p; post++ {
					for cm := int64(0); cm < p; cm++ {
						if (quick || p > 5) && cm > 1 {
							continue
						}
						for p0 := int64(0); p0 < p; p0++ {
							b := insBatch{Depth: 1, Start: fmt.Sprint(s), Pre: fmt.Sprint(pre), Post: fmt.Sprint(post), Comms: []string{fmt.Sprint(cm)}, Proofs: [][]string{{fmt.Sprint(p0)}}}
							h, _ := b.refHash(f)
							for _, dh := range []int64{0, 1} {
								bb := b
								bb.Hash = f.Mod(new(big.Int).Add(h, big.NewInt(dh))).String()
								cases = append(cases, c01Case{Kind: "full-small", P: p, B: &bb})
							}
						}
					}
				}
			}
		}
		r.run(fmt.Sprintf("F%d full InsertionMbuCircuit d=1 b=1", p), cases)
	}

	// ---- part 2b: every depth x batch-size set, defects in the last slot / top level ----
	c01DimSweep(r, quick)

	// ---- part 3: BN254, all tree states over {0,1,r-1}, operation menu ----------
	depths := []int{1, 2}
	for _, d := range depths {
		cases := c01Menu(d, quick)
		r.run(fmt.Sprintf("BN254 InsertionProof gadget, all states d=%d x menu", d), cases)
	}
	if !quick {
		r.run("BN254 InsertionProof gadget, d=3 states (capped sample of state space: first 200 leaf vectors)", c01Menu(3, false))
	}
	// boundary depths with sparse reference
	{
		var cases []c01Case
		for _, d := range []int{16, 31, 32} {
			sp := ref.NewSparse(ref.BN, d)
			size := ref.Pow2(d)
			starts := []*big.Int{ref.B(0), ref.B(1), new(big.Int).Sub(size, ref.B(2)), new(big.Int).Sub(size, ref.B(1)), size, new(big.Int).Sub(ref.Pow2(32), ref.B(1)), ref.Pow2(32), new(big.Int).Sub(ref.R, ref.B(1))}
			for _, st := range starts {
				for _, bsz := range []int{1, 2} {
					cur := ref.NewSparse(ref.BN, d)
					b := insBatch{Depth: d, Start: st.String(), Pre: sp.Root().String()}
					run := sp.Root()
					for i := 0; i < bsz; i++ {
						ix := new(big.Int).Add(st, ref.B(int64(i)))
						ix.Mod(ix, size) // position used to build a path; the verdict is the reference's
						path := cur.Proof(ix.Uint64())
						cm := ref.B(int64(7 + i))
						b.Comms = append(b.Comms, cm.String())
						b.Proofs = append(b.Proofs, strs(path))
						cur.Set(ix.Uint64(), cm)
						run = cur.Root()
					}
					b.Post = run.String()
					cases = append(cases, c01Case{Kind: "gadget-bn", B: &b})
				}
			}
		}
		r.run("BN254 InsertionProof gadget, boundary depths 16/31/32 x index alphabet", cases)
	}
	// full compiled system with hint adversary (deviation bound 1) on representatives
	{
		var cases []c01Case
		dims := [][2]int{{2, 2}}
		if !quick {
			dims = append(dims, [2]int{1, 1}, [2]int{3, 2}, [2]int{2, 3})
		}
		for _, dm := range dims {
			cases = append(cases, c01FullCases(dm[0], dm[1], quick)...)
		}
		r.run("BN254 compiled InsertionMbuCircuit, hint adversary bound 1", cases)
	}
	// the same entry point after other dimensions were compiled in this process (a non-initial state of
	// the compiler path): dimensions whose textual concatenations coincide, (1,12) then (11,2)
	{
		bnInsertionSys(1, 12)
		hc := c01FullCases(11, 2, true)
		if len(hc) > 5 {
			hc = hc[:5]
		}
		for i := range hc {
			hc[i].Dev = 0
		}
		r.run("BN254 compiled InsertionMbuCircuit (11,2) after (1,12) was compiled in the same process", hc)
	}
	runPairIsolation(c, c01Pairs())
	r.finish("C01")
	c.Set("rule", "cases = inputs of the circuit/gadget (enumerated completely over F_47/F_5(/F_7), over all leaf-vector states x operation menu on BN254); non-trivial = reference relation holds (valid append); every case is decided by the implementation (R1CS search with all hint values / gnark engine) and by the reference relation")
	c.Assume("BN254 values range over the alphabets {0,1,r-1} (+ boundary indices); whole-field exhaustiveness is over F_5, F_7 (thorough), F_47")
	c.Assume("gnark's frontend compiles the same Define for tinyfield and BN254 (field-generic gadgets)")
}

// c01Menu enumerates, for every leaf vector over {0,1,r-1} at depth d, the operation menu.
func c01Menu(d int, quick bool) []c01Case {
	rm1 := new(big.Int).Sub(ref.R, ref.B(1))
	alpha := []*big.Int{ref.B(0), ref.B(1), rm1}
	n := 1 << uint(d)
	nStates := 1
	for i := 0; i < n; i++ {
		nStates *= 3
	}
	if nStates > 200 {
		nStates = 200
	}
	size := ref.Pow2(d)
	ix := []*big.Int{ref.B(0), ref.B(1), new(big.Int).Sub(size, ref.B(2)), new(big.Int).Sub(size, ref.B(1)), size, new(big.Int).Add(size, ref.B(1)), new(big.Int).Sub(ref.Pow2(d+1), ref.B(1)), ref.Pow2(d + 1), new(big.Int).Sub(ref.Pow2(32), ref.B(1)), ref.Pow2(32), rm1}
	seenIx := map[string]bool{}
	var starts []*big.Int
	for _, v := range ix {
		if v.Sign() >= 0 && !seenIx[v.String()] {
			seenIx[v.String()] = true
			starts = append(starts, v)
		}
	}
	var cases []c01Case
	for s := 0; s < nStates; s++ {
		t := ref.NewTree(ref.BN, d)
		x := s
		for i := 0; i < n; i++ {
			t.Set(i, alpha[x%3])
			x /= 3
		}
		// the "stale" tree: the BFS parent = same state with its highest non-empty leaf still empty
		parent := t.Clone()
		for i := n - 1; i >= 0; i-- {
			if parent.Leaves[i].Sign() != 0 {
				parent.Set(i, ref.B(0))
				break
			}
		}
		pre := t.Root()
		for si, st := range starts {
			for _, bsz := range []int{1, 2, 3} {
				if bsz == 3 && (quick || d > 2) {
					continue
				}
				if quick && bsz == 2 && d >= 2 && (si == 5 || si == 8 || si == 9) {
					continue
				}
				nc := 1
				for i := 0; i < bsz; i++ {
					nc *= 3
				}
				for cc := 0; cc < nc; cc++ {
					if bsz == 3 && cc%4 != 0 {
						continue
					}
					comms := make([]*big.Int, bsz)
					y := cc
					for i := range comms {
						comms[i] = alpha[(y+1)%3] // order 1, r-1, 0
						y /= 3
					}
					// variants: -1 = all genuine; otherwise (slot, kind)
					for variant := -1; variant < bsz*4; variant++ {
						slot, kind := -1, -1
						if variant >= 0 {
							slot, kind = variant/4, variant%4
						}
						cur := t.Clone()
						b := insBatch{Depth: d, Start: st.String(), Pre: pre.String(), Comms: strs(comms)}
						run := new(big.Int).Set(pre)
						for i := 0; i < bsz; i++ {
							pos := int(new(big.Int).Mod(new(big.Int).Add(st, ref.B(int64(i))), size).Int64())
							path := cur.Proof(pos)
							if i == slot {
								switch kind {
								case 0: // stale: path in the parent state
									path = parent.Proof(pos)
								case 1: // corrupted: first element + 1
									path[0] = ref.BN.Mod(new(big.Int).Add(path[0], ref.B(1)))
								case 2: // corrupted: last element + 1
									path[len(path)-1] = ref.BN.Mod(new(big.Int).Add(path[len(path)-1], ref.B(1)))
								case 3: // reused: path of the neighbouring index, computed on the pre-batch tree
									path = t.Proof(pos ^ 1)
								}
							}
							b.Proofs = append(b.Proofs, strs(path))
							// the chain ignores emptiness on purpose: it is what a circuit without the check would compute
							run = ref.BN.Path(comms[i], path, uint64(pos))
							cur.Set(pos, comms[i])
						}
						for pv := 0; pv < 3; pv++ {
							bb := b
							switch pv {
							case 0:
								bb.Post = run.String()
							case 1:
								if variant >= 0 {
									continue
								}
								bb.Post = pre.String()
							case 2:
								if variant >= 0 {
									continue
								}
								bb.Post = ref.BN.Mod(new(big.Int).Add(run, ref.B(1))).String()
							}
							cases = append(cases, c01Case{Kind: "gadget-bn", B: &bb})
						}
					}
				}
			}
		}
	}
	return cases
}

// c01FullCases: valid transitions from three states + every single-field perturbation + boundary starts.
func c01FullCases(d, bsz int, quick bool) []c01Case {
	var cases []c01Case
	rm1 := new(big.Int).Sub(ref.R, ref.B(1))
	n := 1 << uint(d)
	mk := func(t *ref.Tree, start int, comms []*big.Int) insBatch {
		cur := t.Clone()
		b := insBatch{Depth: d, Start: fmt.Sprint(start), Pre: t.Root().String(), Comms: strs(comms)}
		for i := range comms {
			pos := (start + i) % n
			b.Proofs = append(b.Proofs, strs(cur.Proof(pos)))
			cur.Set(pos, comms[i])
		}
		b.Post = cur.Root().String()
		h, _ := b.refHash(ref.BN)
		b.Hash = h.String()
		return b
	}
	comms := make([]*big.Int, bsz)
	for i := range comms {
		comms[i] = []*big.Int{ref.B(1), rm1, ref.B(0)}[i%3]
	}
	empty := ref.NewTree(ref.BN, d)
	hole := ref.NewTree(ref.BN, d) // leaf n-1 occupied, hole before it
	hole.Set(n-1, ref.B(5))
	var bases []insBatch
	bases = append(bases, mk(empty, 0, comms))
	if n-bsz >= 0 {
		bases = append(bases, mk(empty, n-bsz, comms)) // ends at the last leaf
	}
	bases = append(bases, mk(hole, 0, comms))        // d=1,b>=2 or small trees: may run into the occupied leaf -> invalid by reference
	bases = append(bases, mk(empty, n-bsz+1, comms)) // runs past the end (wraps in mk) -> invalid
	for bi, base := range bases {
		add := func(b insBatch) { cases = append(cases, c01Case{Kind: "full-bn", B: &b, Dev: 1}) }
		add(base)
		if quick && bi > 1 {
			continue
		}
		inc := func(s string) string { return ref.BN.Mod(new(big.Int).Add(bigs(s), ref.B(1))).String() }
		p := base
		p.Hash = inc(base.Hash)
		add(p)
		p = base
		p.Hash = new(big.Int).Add(bigs(base.Hash), ref.R).String() // another representative: must behave like base
		add(p)
		p = base
		p.Start = inc(base.Start)
		add(p)
		p = base
		p.Pre = inc(base.Pre)
		add(p)
		p = base
		p.Post = inc(base.Post)
		add(p)
		for i := range base.Comms {
			p = base
			p.Comms = append([]string{}, base.Comms...)
			p.Comms[i] = inc(base.Comms[i])
			add(p)
		}
		for i := range base.Proofs {
			for j := range base.Proofs[i] {
				p = base
				p.Proofs = make([][]string, len(base.Proofs))
				for k := range p.Proofs {
					p.Proofs[k] = append([]string{}, base.Proofs[k]...)
				}
				p.Proofs[i][j] = inc(base.Proofs[i][j])
				add(p)
			}
		}
		// perturbed batch with its own (recomputed) hash: hash ok, relation broken
		p = base
		p.Post = inc(base.Post)
		h, _ := p.refHash(ref.BN)
		p.Hash = h.String()
		add(p)
		p = base
		p.Start = fmt.Sprint(1 << uint(d)) // aliasing start: low bits 0
		h, _ = p.refHash(ref.BN)
		p.Hash = h.String()
		add(p)
	}
	return cases
}
