package checks

import (
	"bytes"
	"crypto/sha256"
	"encoding/hex"
	"encoding/json"
	"fmt"
	"os"
	"path/filepath"
	"strings"
	"sync"
	"time"

	"verif/harness/ev"
	"worldcoin/gnark-mbu/prover"
)

// C11: seqmc over file operations: states = proving systems reached from a fresh
// setup by chains of {write compressed/raw + read back (in memory or through a
// file), CLI convert-to-raw}; every state must be interchangeable with the origin.

type c11Case struct {
	Mode  string   `json:"mode"`
	D     int      `json:"depth"`
	B     int      `json:"batch"`
	Chain []string `json:"chain"`
}

var c11Ops = []string{"mem-compressed", "mem-raw", "file-compressed", "file-raw", "cli-convert-to-raw", "cli-convert-in-place", "cli-convert-onto-existing"}

func init() {
	Registry["C11"] = func() {
		ev.Main("C11", "exploration", 300*time.Second, 40*time.Minute, c11Body, func(c *ev.Ctx, raw json.RawMessage) {
			if bytes.Contains(raw, []byte("failing_write_call")) {
				var f c11Fault
				if err := json.Unmarshal(raw, &f); err != nil {
					c.HarnessError("%v", err)
				}
				c11ReplayFault(c, &f)
				return
			}
			var cs c11Case
			if err := json.Unmarshal(raw, &cs); err != nil {
				c.HarnessError("%v", err)
			}
			key, msg := c11Run(c, &cs, nil)
			fmt.Println("replay:", key, msg)
			if msg != "" {
				c.Violation(key, msg, cs)
			}
		})
	}
}

func sysDigest(ps *prover.ProvingSystem) (string, error) {
	h := sha256.New()
	if _, err := ps.WriteRawTo(h); err != nil {
		return "", err
	}
	return hex.EncodeToString(h.Sum(nil)), nil
}

var c11Tmp int64
var c11Mu sync.Mutex

func tmpName(prefix string) string {
	c11Mu.Lock()
	c11Tmp++
	n := c11Tmp
	c11Mu.Unlock()
	return filepath.Join(scratchDir(), fmt.Sprintf("%s-%d-%d.ps", prefix, os.Getpid(), n))
}

// c11Apply performs one operation and returns the reloaded system.
func c11Apply(ps *prover.ProvingSystem, op string) (out *prover.ProvingSystem, err error) {
	defer func() {
		if r := recover(); r != nil {
			out, err = nil, fmt.Errorf("panic: %v", r)
		}
	}()
	switch op {
	case "mem-compressed", "mem-raw":
		var buf bytes.Buffer
		var err error
		var n int64
		if op == "mem-raw" {
			n, err = ps.WriteRawTo(&buf)
		} else {
			n, err = ps.WriteTo(&buf)
		}
		if err != nil {
			return nil, fmt.Errorf("write: %v", err)
		}
		if n != int64(buf.Len()) {
			return nil, fmt.Errorf("writer reports %d bytes, wrote %d", n, buf.Len())
		}
		o := new(prover.ProvingSystem)
		if _, err := o.UnsafeReadFrom(bytes.NewReader(buf.Bytes())); err != nil {
			return nil, fmt.Errorf("read back: %v", err)
		}
		return o, nil
	case "file-compressed", "file-raw", "cli-convert-to-raw", "cli-convert-in-place", "cli-convert-onto-existing":
		path := tmpName("c11")
		defer os.Remove(path)
		f, err := os.Create(path)
		if err != nil {
			return nil, err
		}
		if op == "file-raw" {
			_, err = ps.WriteRawTo(f)
		} else {
			_, err = ps.WriteTo(f)
		}
		f.Close()
		if err != nil {
			return nil, fmt.Errorf("write: %v", err)
		}
		rd := path
		if op == "cli-convert-in-place" {
			// the same path as input and output (converting a keys file where it lies)
			res, err := runCLI(nil, 10*time.Minute, "convert-to-raw", "--input", path, "--output", path)
			if err != nil {
				return nil, err
			}
			if res.Exit != 0 {
				return nil, fmt.Errorf("convert-to-raw with input == output exits %d: %s", res.Exit, tailStr(res.Stderr))
			}
		}
		if op == "cli-convert-to-raw" || op == "cli-convert-onto-existing" {
			rd = tmpName("c11conv")
			defer os.Remove(rd)
			if op == "cli-convert-onto-existing" {
				// the output path already holds an older (here: unrelated) file: it must be replaced, not extended
				if err := os.WriteFile(rd, bytes.Repeat([]byte("stale keys file "), 4096), 0o644); err != nil {
					return nil, err
				}
			}
			res, err := runCLI(nil, 10*time.Minute, "convert-to-raw", "--input", path, "--output", rd)
			if err != nil {
				return nil, err
			}
			if res.Exit != 0 {
				return nil, fmt.Errorf("convert-to-raw exit %d: %s", res.Exit, tailStr(res.Stderr))
			}
		}
		o, err := prover.ReadSystemFromFile(rd)
		if err != nil {
			return nil, fmt.Errorf("ReadSystemFromFile: %v", err)
		}
		return o, nil
	}
	return nil, fmt.Errorf("unknown op %s", op)
}

type c11Stats struct {
	mu                    sync.Mutex
	states, transitions   int64
	proofs, crossVerifies int64
	foreignRejected       int64
}

func c11Run(c *ev.Ctx, cs *c11Case, st *c11Stats) (key, msg string) {
	orig, err := getSystem(cs.Mode, cs.D, cs.B, 0)
	if err != nil {
		c.HarnessError("setup: %v", err)
	}
	od, err := sysDigest(orig)
	if err != nil {
		c.HarnessError("digest: %v", err)
	}
	cur := orig
	k := fmt.Sprintf("%s d=%d b=%d|%s", cs.Mode, cs.D, cs.B, strings.Join(cs.Chain, ">"))
	for i, op := range cs.Chain {
		nx, err := c11Apply(cur, op)
		if st != nil {
			st.mu.Lock()
			st.transitions++
			st.mu.Unlock()
		}
		if err != nil {
			return "reload-fails|" + k, fmt.Sprintf("step %d (%s): %v", i, op, err)
		}
		cur = nx
	}
	if cur.TreeDepth != orig.TreeDepth || cur.BatchSize != orig.BatchSize {
		return "dims|" + k, fmt.Sprintf("reloaded system has depth=%d batch=%d, original depth=%d batch=%d", cur.TreeDepth, cur.BatchSize, orig.TreeDepth, orig.BatchSize)
	}
	cd, err := sysDigest(cur)
	if err != nil {
		return "reserialise|" + k, err.Error()
	}
	if cd != od {
		return "content|" + k, "reloaded system re-serialises to different bytes (keys or constraint system changed)"
	}
	// cross behaviour
	var h = bigs("0")
	var mk func(ps *prover.ProvingSystem) (*prover.Proof, error)
	if cs.Mode == "insertion" {
		bt := validInsBatches(cs.D, cs.B)[0]
		h = bigs(bt.Hash)
		mk = func(ps *prover.ProvingSystem) (*prover.Proof, error) { return ps.ProveInsertion(bt.params()) }
	} else {
		bt := validDelBatches(cs.D, cs.B)[0]
		h = bigs(bt.Hash)
		mk = func(ps *prover.ProvingSystem) (*prover.Proof, error) { return ps.ProveDeletion(bt.params()) }
	}
	p1, err := mk(cur)
	if err != nil {
		return "prove-reloaded|" + k, "reloaded system cannot prove a valid batch: " + err.Error()
	}
	if e := safeVerify(orig, cs.Mode, h, p1); e != nil {
		return "orig-rejects-reloaded|" + k, "original rejects the proof made by the reloaded system: " + e.Error()
	}
	p0, err := mk(orig)
	if err != nil {
		c.HarnessError("original cannot prove: %v", err)
	}
	if e := safeVerify(cur, cs.Mode, h, p0); e != nil {
		return "reloaded-rejects-orig|" + k, "reloaded system rejects the original's proof: " + e.Error()
	}
	if st != nil {
		st.mu.Lock()
		st.states++
		st.proofs += 2
		st.crossVerifies += 2
		st.mu.Unlock()
		// non-vacuity: an independent setup of the same circuit must NOT accept (recorded only)
		if len(cs.Chain) == 1 && cs.Chain[0] == "mem-raw" {
			if other, err := getSystem(cs.Mode, cs.D, cs.B, 1); err == nil {
				if safeVerify(other, cs.Mode, h, p0) != nil {
					st.mu.Lock()
					st.foreignRejected++
					st.mu.Unlock()
				}
			}
		}
	}
	return "", ""
}

func c11Body(c *ev.Ctx) {
	quick := c.Quick()
	dims := [][2]int{{1, 2}}
	if !quick {
		dims = append(dims, [2]int{3, 2}, [2]int{2, 3})
	}
	st := &c11Stats{}
	var cases []c11Case
	for _, dm := range dims {
		for _, mode := range []string{"insertion", "deletion"} {
			for _, a := range c11Ops {
				cases = append(cases, c11Case{mode, dm[0], dm[1], []string{a}})
				for _, b := range c11Ops {
					if quick && !(a == "mem-compressed" && b == "file-raw" || a == "file-raw" && b == "mem-compressed" || a == "cli-convert-to-raw" && b == "file-compressed") {
						continue
					}
					cases = append(cases, c11Case{mode, dm[0], dm[1], []string{a, b}})
					if !quick && a != b && dm[0] == 1 {
						cases = append(cases, c11Case{mode, dm[0], dm[1], []string{a, b, a}})
					}
				}
			}
		}
	}
	// extreme dimensions (deepest supported tree; a padded deletion batch larger than the tree): short chains
	type xdim struct {
		mode string
		d, b int
	}
	extreme := []xdim{{"insertion", 32, 1}, {"deletion", 1, 3}}
	if !quick {
		extreme = append(extreme, xdim{"deletion", 31, 1}, xdim{"insertion", 1, 2}, xdim{"insertion", 31, 2})
	}
	for _, x := range extreme {
		cases = append(cases, c11Case{x.mode, x.d, x.b, []string{"mem-compressed"}}, c11Case{x.mode, x.d, x.b, []string{"file-raw"}})
	}
	// setups first (sequentially per key, in parallel across keys)
	var wg sync.WaitGroup
	for _, x := range extreme {
		wg.Add(1)
		go func(x xdim) {
			defer wg.Done()
			if _, err := getSystem(x.mode, x.d, x.b, 0); err != nil {
				c.HarnessError("setup: %v", err)
			}
		}(x)
	}
	for _, dm := range dims {
		for _, mode := range []string{"insertion", "deletion"} {
			for inst := 0; inst < 2; inst++ {
				wg.Add(1)
				go func(mode string, d, b, inst int) {
					defer wg.Done()
					if _, err := getSystem(mode, d, b, inst); err != nil {
						c.HarnessError("setup: %v", err)
					}
				}(mode, dm[0], dm[1], inst)
			}
		}
	}
	wg.Wait()
	c.Logf("%d setups done, %d chains", len(dims)*4, len(cases))
	// files are tens of MB: run 6 chains at a time
	sem := make(chan struct{}, 6)
	var done int64
	var dmu sync.Mutex
	var wg2 sync.WaitGroup
	for i := range cases {
		if c.Expired() {
			break
		}
		wg2.Add(1)
		sem <- struct{}{}
		go func(i int) {
			defer wg2.Done()
			defer func() { <-sem }()
			key, msg := c11Run(c, &cases[i], st)
			if msg != "" {
				c.Violation(key, msg, cases[i])
			}
			dmu.Lock()
			done++
			dmu.Unlock()
		}(i)
	}
	wg2.Wait()
	if !c.Expired() && c.NViolations() == 0 {
		c11WriteFaults(c, quick)
	}
	runPairIsolation(c, c11Pairs())
	if int(done) < len(cases) {
		c.Cap(fmt.Sprintf("%d of %d chains", done, len(cases)))
	} else {
		c.Set("exhaustive", true)
	}
	c.Sample(cases[0])
	c.Sample(cases[len(cases)-1])
	c.Set("evaluations", done)
	c.Set("distinct_nontrivial", st.states)
	c.Set("states", st.states)
	c.Set("transitions", st.transitions)
	c.Set("proofs_generated", st.proofs)
	c.Set("cross_verifications", st.crossVerifies)
	c.Set("independent_setup_rejects_foreign_proof", st.foreignRejected)
	c.Set("rule", "chains of length <=2 (<=3 thorough) over {write compressed, write raw} x {in memory + UnsafeReadFrom, file + ReadSystemFromFile} and the CLI convert-to-raw (to another file, in place, and onto an existing output file), from a fresh setup of each mode at dims with depth != batch, plus short chains at extreme dimensions (insertion depth 32, a padded deletion batch of 3 on a 2-leaf tree); then write-fault enumeration (every Write call of the serialisation of a small system, structural calls of a real one, failing once / short / for ever: the writer must report an error or have written the complete file; CLI output on a full device); every reached system must have equal dimensions, re-serialise to the same bytes as the original, prove a valid batch that the original verifies and verify the original's proof; distinct = chains whose end state passed all comparisons")
	c.Assume("byte-equality of the raw re-serialisation stands for equality of proving key, verifying key and constraint system")
}
