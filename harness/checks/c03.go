package checks

import (
	"encoding/json"
	"fmt"
	"math/big"
	"math/rand"
	"time"

	"verif/harness/ev"
	"verif/harness/ref"
)

// C03: the public input binds the batch. Built from the full-circuit case kinds
// of C01/C02: "full-engine-bn" (gnark engine, full Define, honest hints) and
// "full-bn" (compiled system, hint adversary).

type c03Case struct {
	Ins *c01Case `json:"ins,omitempty"`
	Del *c02Case `json:"del,omitempty"`
	Why string   `json:"why"`
}

func c03Eval(cs *c03Case, ts *tinyStats, bs *bnStats) (string, string, error) {
	if cs.Ins != nil {
		return c01Eval(cs.Ins, ts, bs)
	}
	return c02Eval(cs.Del, ts, bs)
}

func init() {
	Registry["C03"] = func() {
		ev.Main("C03", "exploration", 200*time.Second, 30*time.Minute, c03Body, func(c *ev.Ctx, raw json.RawMessage) {
			var cs c03Case
			if err := json.Unmarshal(raw, &cs); err != nil {
				c.HarnessError("%v", err)
			}
			got, want, err := c03Eval(&cs, nil, nil)
			if err != nil {
				c.HarnessError("%v", err)
			}
			fmt.Printf("replay: got=%s want=%s\n", got, want)
			if got != want {
				c.Violation("replay", fmt.Sprintf("got %s, want %s", got, want), cs)
			}
		})
	}
}

// fieldAlphabet: boundary values, every big-endian byte length, two seeded values.
func fieldAlphabet(seed int64, quick bool) []*big.Int {
	rm := func(k int64) *big.Int { return new(big.Int).Sub(ref.R, ref.B(k)) }
	out := []*big.Int{ref.B(0), ref.B(1), ref.B(2), ref.B(255), ref.B(256), rm(1), rm(2), new(big.Int).Rsh(rm(1), 1)}
	for k := 1; k <= 31; k++ {
		if false {
			continue
		}
		out = append(out, ref.Pow2(8*k))
	}
	out = append(out, new(big.Int).Sub(ref.Pow2(248), ref.B(1)), new(big.Int).Sub(ref.Pow2(240), ref.B(1)))
	rng := rand.New(rand.NewSource(seed))
	for i := 0; i < 2; i++ {
		out = append(out, new(big.Int).Rand(rng, ref.R))
	}
	return out
}

func inc(s string) string { return ref.BN.Mod(new(big.Int).Add(bigs(s), ref.B(1))).String() }

func c03Body(c *ev.Ctx) {
	r := &caseRunner{c: c, outcomes: map[string]int64{}}
	quick := c.Quick()
	FE := fieldAlphabet(c.Seed, quick)

	// ---- A1: deletion, all-padding slots: roots are free ------------------------
	{
		var cases []c03Case
		d := 1
		// 64+4b bytes: 16,17 -> 128,132 bytes (the +8-bit domain byte still fits one 136-byte
		// block), 18 -> exactly one block, 19 -> two blocks, 51 -> 268 bytes (second boundary)
		batches := []int{1, 2, 16, 17, 18, 19, 50, 51, 52}
		if quick {
			batches = []int{1, 16, 17, 18, 19, 51, 52} // 52: 272 bytes = the packing starts its third block
		}
		add := func(b delBatch, why string) {
			cases = append(cases, c03Case{Del: &c02Case{Kind: "full-engine-bn", B: &b}, Why: why})
		}
		for _, n := range batches {
			for vi, v := range FE {
				if n > 2 && quick && vi%2 != 0 {
					continue
				}
				b := delBatch{Depth: d, Pre: v.String(), Post: v.String()}
				for i := 0; i < n; i++ {
					ix := int64(2) // 2^d
					if i%2 == 1 {
						ix = 3 // 2^(d+1)-1
					}
					b.Idx = append(b.Idx, fmt.Sprint(ix))
					b.Items = append(b.Items, "0")
					b.Proofs = append(b.Proofs, []string{"0"})
				}
				h, _ := b.refHash(ref.BN)
				b.Hash = h.String()
				add(b, "valid all-padding batch with canonical hash")
				p := b
				p.Hash = inc(b.Hash)
				add(p, "hash+1")
				if n <= 2 || vi%8 == 0 {
					p = b
					p.Hash = new(big.Int).Mod(h, ref.R).String()
					add(p, "hash reduced mod r (same field element)")
					p = b
					p.Pre, p.Post = inc(b.Pre), inc(b.Post)
					add(p, "both roots +1 (relation still holds), hash unchanged")
					p = b
					p.Idx = append([]string{}, b.Idx...)
					if p.Idx[n-1] == "2" {
						p.Idx[n-1] = "3"
					} else {
						p.Idx[n-1] = "2"
					}
					add(p, "last padding index changed to the other padding index, hash unchanged")
					if n >= 2 {
						p = b
						p.Idx = append([]string{}, b.Idx...)
						p.Idx[0], p.Idx[1] = p.Idx[1], p.Idx[0]
						add(p, "first two indices swapped, hash unchanged")
					}
				}
			}
		}
		runCases(r, "BN254 full DeletionMbuCircuit (engine): byte-length classes x block boundaries x perturbations", cases, c03Eval)
	}
	// ---- A2: insertion into the empty tree: commitments are free ----------------
	{
		var cases []c03Case
		d := 2
		add := func(b insBatch, why string) {
			cases = append(cases, c03Case{Ins: &c01Case{Kind: "full-engine-bn", B: &b}, Why: why})
		}
		mk := func(start int, comms []*big.Int) insBatch {
			t := ref.NewTree(ref.BN, d)
			b := insBatch{Depth: d, Start: fmt.Sprint(start), Pre: t.Root().String(), Comms: strs(comms)}
			for i, cm := range comms {
				b.Proofs = append(b.Proofs, strs(t.Proof(start+i)))
				t.Set(start+i, cm)
			}
			b.Post = t.Root().String()
			h, _ := b.refHash(ref.BN)
			b.Hash = h.String()
			return b
		}
		for _, n := range []int{1, 2, 3, 7} { // 7: 292 bytes = three Keccak blocks
			if n > 4 {
				d = 3
			}
			for vi, v := range FE {
				if quick && n > 2 && vi%2 != 0 {
					continue
				}
				if n > 4 && vi%6 != 0 {
					continue
				}
				for _, start := range []int{0, 1} {
					if start+n > 1<<uint(d) || (quick && start == 1 && n != 2) {
						continue
					}
					comms := make([]*big.Int, n)
					for i := range comms {
						comms[i] = FE[(vi+i*5)%len(FE)]
					}
					comms[0] = v
					b := mk(start, comms)
					add(b, "valid batch, canonical hash")
					p := b
					p.Hash = inc(b.Hash)
					add(p, "hash+1")
					if n >= 2 && comms[0].Cmp(comms[1]) != 0 {
						sw := append([]*big.Int{}, comms...)
						sw[0], sw[1] = sw[1], sw[0]
						q := mk(start, sw)
						q.Hash = b.Hash
						add(q, "commitments swapped (valid batch), hash of the original order")
					}
					if start == 0 && n <= 3 {
						q := mk(1, comms)
						q.Hash = b.Hash
						add(q, "same commitments appended at start 1 (valid), hash of start 0")
					}
				}
			}
		}
		runCases(r, "BN254 full InsertionMbuCircuit (engine): commitment byte-length classes x perturbations", cases, c03Eval)
	}
	// ---- B: dishonest prover: alternative 256-bit decompositions v + k*r ---------
	{
		var cases []c03Case
		vals := []*big.Int{ref.B(0), ref.B(1), new(big.Int).Sub(ref.R, ref.B(1)), FE[len(FE)-1]}
		if quick {
			vals = vals[:3]
		}
		maxDev := 1
		two256 := ref.Pow2(256)
		forge := func(v *big.Int, k int64) *big.Int {
			x := new(big.Int).Add(v, new(big.Int).Mul(ref.B(k), ref.R))
			if x.Cmp(two256) >= 0 {
				return nil
			}
			return x
		}
		for _, v := range vals {
			// deletion (1,1), all padding, Pre = Post = v
			b := delBatch{Depth: 1, Pre: v.String(), Post: v.String(), Idx: []string{"2"}, Items: []string{"0"}, Proofs: [][]string{{"0"}}}
			h, _ := b.refHash(ref.BN)
			b.Hash = h.String()
			cases = append(cases, c03Case{Del: &c02Case{Kind: "full-bn", B: &b, Dev: maxDev}, Why: "canonical hash, adversarial hints allowed"})
			for k := int64(1); k <= 5; k++ {
				fv := forge(v, k)
				if fv == nil {
					continue
				}
				for which := 0; which < 2; which++ {
					pre, post := v, v
					if which == 0 {
						pre = fv
					} else {
						post = fv
					}
					p := b
					p.Hash = ref.KeccakInt(ref.PackDeletion([]uint32{2}, pre, post)).String()
					cases = append(cases, c03Case{Del: &c02Case{Kind: "full-bn", B: &p, Dev: maxDev}, Why: fmt.Sprintf("public input = Keccak of packing with root %d replaced by v+%d*r", which, k)})
				}
				if !quick || k == 1 {
					p := b
					p.Hash = ref.KeccakInt(ref.PackDeletion([]uint32{2}, fv, fv)).String()
					cases = append(cases, c03Case{Del: &c02Case{Kind: "full-bn", B: &p, Dev: 2}, Why: fmt.Sprintf("both roots replaced by v+%d*r (deviation bound 2)", k)})
				}
			}
			// insertion (1,1): commitment v into the empty tree
			t := ref.NewTree(ref.BN, 1)
			ib := insBatch{Depth: 1, Start: "0", Pre: t.Root().String(), Comms: []string{v.String()}, Proofs: [][]string{strs(t.Proof(0))}}
			t.Set(0, v)
			ib.Post = t.Root().String()
			ih, _ := ib.refHash(ref.BN)
			ib.Hash = ih.String()
			cases = append(cases, c03Case{Ins: &c01Case{Kind: "full-bn", B: &ib, Dev: maxDev}, Why: "canonical hash, adversarial hints allowed"})
			for k := int64(1); k <= 5; k++ {
				for which := 0; which < 3; which++ {
					pre, post, cm := bigs(ib.Pre), bigs(ib.Post), v
					var fvv *big.Int
					switch which {
					case 0:
						fvv = forge(pre, k)
						pre = fvv
					case 1:
						fvv = forge(post, k)
						post = fvv
					case 2:
						fvv = forge(cm, k)
						cm = fvv
					}
					if fvv == nil {
						continue
					}
					p := ib
					p.Hash = ref.KeccakInt(ref.PackInsertion(0, pre, post, []*big.Int{cm})).String()
					cases = append(cases, c03Case{Ins: &c01Case{Kind: "full-bn", B: &p, Dev: maxDev}, Why: fmt.Sprintf("public input = Keccak of packing with field %d replaced by v+%d*r", which, k)})
				}
			}
		}
		runCases(r, "BN254 compiled circuits: every alternative decomposition v+k*r of every packed 256-bit field (hint adversary)", cases, c03Eval)
	}
	runPairIsolation(c, fullCircuitPairs())
	r.finish("C03")
	c.Set("rule", "cases = (witness, public input) pairs for the full circuits; A: gnark engine over byte-length classes / block boundaries / single-field perturbations; B: explicit search of the compiled R1CS where bit-decomposition hint sites may answer with any boolean solution v+k*r<2^256 (complete set) or non-boolean digits; non-trivial = reference accepts (public input is the canonical Keccak and the batch is valid)")
	c.Assume("Keccak reference = golang.org/x/crypto/sha3 legacy Keccak-256; packing reference written from the property statement")
	c.Assume("adversary alphabet per hint site: all boolean recompositions + 3 non-boolean digit vectors; deviation bound 1 (2 for the double-root forgery)")
}
