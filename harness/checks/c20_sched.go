//go:build verif

package checks

import (
	"bytes"
	"encoding/json"
	"fmt"
	"sort"
	"strings"
	"sync"
	"sync/atomic"
	"time"

	"github.com/prometheus/common/expfmt"
	"verif/harness/ev"
	"worldcoin/gnark-mbu/server"
	"worldcoin/gnark-mbu/verifrt/vhttp"
	"worldcoin/gnark-mbu/verifrt/vsched"
)

type c20Scenario struct {
	Mode       string    `json:"mode"`
	Concurrent bool      `json:"concurrent"`
	Reqs       []httpReq `json:"requests"`
	Scrapes    int       `json:"scrapes"`
	Load       int       `json:"load,omitempty"` // > 0: this many POSTs are held inside their handlers (stalled body) while the metrics address is scraped
	Choices    []int     `json:"schedule,omitempty"`
}

type scrape struct {
	Totals   map[string]float64 // "method code" -> count for endpoint_pattern="/prove"
	Sum      float64
	InFlight float64
	HasGauge bool
}

func parseScrape(body []byte) (*scrape, error) {
	var p expfmt.TextParser
	fams, err := p.TextToMetricFamilies(bytes.NewReader(body))
	if err != nil {
		return nil, err
	}
	s := &scrape{Totals: map[string]float64{}}
	if f, ok := fams["http_requests_total"]; ok {
		for _, m := range f.Metric {
			var method, code, ep string
			for _, l := range m.Label {
				switch l.GetName() {
				case "method":
					method = l.GetValue()
				case "code":
					code = l.GetValue()
				case "endpoint_pattern":
					ep = l.GetValue()
				}
			}
			if ep == "/prove" {
				s.Totals[method+" "+code] += m.GetCounter().GetValue()
				s.Sum += m.GetCounter().GetValue()
			}
		}
	}
	if f, ok := fams["http_requests_in_flight"]; ok {
		for _, m := range f.Metric {
			for _, l := range m.Label {
				if l.GetName() == "endpoint_pattern" && l.GetValue() == "/prove" {
					s.InFlight = m.GetGauge().GetValue()
					s.HasGauge = true
				}
			}
		}
	}
	return s, nil
}

func init() {
	Registry["C20"] = func() {
		ev.Main("C20", "model_checking", 300*time.Second, 40*time.Minute, c20Body, func(c *ev.Ctx, raw json.RawMessage) {
			var sc c20Scenario
			if err := json.Unmarshal(raw, &sc); err != nil {
				c.HarnessError("%v", err)
			}
			var first string
			for i := 0; i < 2; i++ {
				setup, body, check := c20Run(c, &sc, nil)()
				s := vsched.Run(vsched.Config{Prefix: sc.Choices, MaxSteps: 2000000, Fine: sc.Concurrent}, setup, body)
				vhttp.Uninstall(s)
				f := s.Fail
				if f == nil {
					f = check(s)
				}
				desc := "ok"
				if f != nil {
					desc = f.Kind + ": " + f.Msg
				}
				fmt.Printf("replay %d: %s\n", i, desc)
				if i == 0 {
					first = desc
				} else if desc != first {
					c.HarnessError("schedule does not replay deterministically: %q vs %q", first, desc)
				} else if f != nil {
					c.Violation("replay", desc, sc)
				}
			}
		})
	}
}

func tallyKey(method string, status int) string {
	return strings.ToLower(method) + " " + fmt.Sprint(status)
}

var c20InFlightSeen int64

func c20Run(c *ev.Ctx, sc *c20Scenario, states *sync.Map) func() (func(*vsched.Sched), func(), func(*vsched.Sched) *vsched.Failure) {
	ps, err := getSystem(sc.Mode, c13D, c13B, 0)
	if err != nil {
		c.HarnessError("setup: %v", err)
	}
	return func() (func(*vsched.Sched), func(), func(*vsched.Sched) *vsched.Failure) {
		var failure *vsched.Failure
		bad := func(format string, a ...any) {
			if failure == nil {
				failure = &vsched.Failure{Kind: "invariant", Msg: fmt.Sprintf(format, a...)}
			}
		}
		doScrape := func(name string) (*scrape, *vhttp.Response) {
			r := vhttp.Do(name, metricsAddr, "GET", "/metrics", nil)
			if r.Outcome != "complete" || r.Status != 200 {
				bad("scrape of the metrics address failed: outcome=%s status=%d", r.Outcome, r.Status)
				return nil, r
			}
			s, err := parseScrape(r.Body)
			if err != nil {
				bad("metrics exposition does not parse: %v", err)
				return nil, r
			}
			return s, r
		}
		compare := func(s *scrape, tally map[string]int, when string) {
			if s == nil {
				return
			}
			for k, v := range tally {
				if s.Totals[k] != float64(v) {
					bad("%s: http_requests_total{/prove, %s} = %v, responses actually sent = %d (all totals: %v, sent: %v)", when, k, s.Totals[k], v, s.Totals, tally)
				}
			}
			for k, v := range s.Totals {
				if _, ok := tally[k]; !ok && v != 0 {
					bad("%s: http_requests_total reports %v responses for (%s) but none was sent (sent: %v)", when, v, k, tally)
				}
			}
			if !s.HasGauge {
				bad("%s: http_requests_in_flight for /prove is not exposed", when)
			} else if s.InFlight != 0 {
				bad("%s: in-flight gauge is %v although every request has completed", when, s.InFlight)
			}
		}
		setup := func(s *vsched.Sched) { vhttp.Install(s) }
		body := func() {
			vsched.SetExplore(false)
			cfg := server.Config{ProverAddress: proverAddr, MetricsAddress: metricsAddr, Mode: sc.Mode}
			inst := server.Run(&cfg, ps)
			vhttp.WaitAccepting(proverAddr)
			vhttp.WaitAccepting(metricsAddr)
			tally := map[string]int{}
			if sc.Load > 0 {
				// availability under load: Load requests are inside the /prove handler (reading a body whose
				// rest has not arrived); the metrics address must answer and report exactly them in flight
				st := &vhttp.Stall{}
				done := vsched.NewChan[int](sc.Load + 1)
				results := make([]*vhttp.Response, sc.Load)
				for i := 0; i < sc.Load; i++ {
					i := i
					vsched.GoNamed(fmt.Sprintf("client%d", i), func() {
						results[i] = vhttp.DoStalled(fmt.Sprintf("c%d", i), proverAddr, "POST", "/prove", []byte("not json"), st)
						done.Send(i)
					})
				}
				st.AwaitParked(sc.Load)
				vsched.SetExplore(true)
				vsched.GoNamed("scraper", func() {
					s, _ := doScrape("s-load")
					if s != nil {
						if s.InFlight != float64(sc.Load) {
							bad("scrape under load: %d requests are inside the /prove handler, in-flight gauge says %v", sc.Load, s.InFlight)
						}
						if s.Sum != 0 {
							bad("scrape under load: %v responses counted although no handler has returned", s.Sum)
						}
						atomic.AddInt64(&c20InFlightSeen, 1)
					}
					done.Send(100)
				})
				if v := done.Recv(); v != 100 {
					bad("a held request completed before its body arrived")
				}
				vsched.SetExplore(false)
				st.Release()
				for i := 0; i < sc.Load; i++ {
					done.Recv()
				}
				for i, r := range results {
					if r == nil || r.Outcome != "complete" {
						bad("request %d got no response", i)
						continue
					}
					tally[tallyKey("POST", r.Status)]++
				}
				s, _ := doScrape("final")
				compare(s, tally, "after the held requests completed")
			} else if !sc.Concurrent {
				for i, rq := range sc.Reqs {
					r := vhttp.Do(fmt.Sprintf("c%d", i), proverAddr, rq.Method, "/prove", rq.Bytes())
					if r.Outcome != "complete" {
						bad("request %d got no response (%s)", i, r.Outcome)
						break
					}
					tally[tallyKey(rq.Method, r.Status)]++
					s, _ := doScrape(fmt.Sprintf("s%d", i))
					compare(s, tally, fmt.Sprintf("after request %d (%s)", i+1, rq.Why))
					if states != nil {
						states.Store(fmt.Sprint(tally), true)
					}
				}
			} else {
				n := len(sc.Reqs)
				done := vsched.NewChan[int](n + sc.Scrapes)
				results := make([]*vhttp.Response, n)
				vhttp.Net().HoldConns(n + sc.Scrapes)
				vsched.SetExplore(true)
				for i := range sc.Reqs {
					i := i
					vsched.GoNamed(fmt.Sprintf("client%d", i), func() {
						results[i] = vhttp.Do(fmt.Sprintf("c%d", i), proverAddr, sc.Reqs[i].Method, "/prove", sc.Reqs[i].Bytes())
						done.Send(i)
					})
				}
				for k := 0; k < sc.Scrapes; k++ {
					k := k
					vsched.GoNamed(fmt.Sprintf("scraper%d", k), func() {
						s, r := doScrape(fmt.Sprintf("s%d", k))
						if s != nil {
							// ground truth at the instant the (atomic) metrics handler ran
							active, completed := r.Before[proverAddr][0], r.Before[proverAddr][1]
							if r.After[proverAddr][0] != active {
								bad("harness: metrics handler was not atomic")
							}
							if s.InFlight > float64(active) || s.InFlight < 0 {
								bad("scrape during load: in-flight gauge %v but only %d /prove requests are being served", s.InFlight, active)
							}
							if s.Sum < float64(completed) || s.Sum > float64(completed+active) {
								bad("scrape during load: %v responses counted, %d handlers have returned and %d are running", s.Sum, completed, active)
							}
							if s.InFlight >= 1 {
								atomic.AddInt64(&c20InFlightSeen, 1)
							}
							vsched.Observe("scrape%d:inflight=%v:sum=%v", k, s.InFlight, s.Sum)
						}
						done.Send(100 + k)
					})
				}
				vhttp.Net().AwaitHeld()
				for i := 0; i < n+sc.Scrapes; i++ {
					done.Recv()
				}
				vsched.SetExplore(false)
				for i, r := range results {
					if r == nil || r.Outcome != "complete" {
						bad("request %d got no response", i)
						continue
					}
					tally[tallyKey(sc.Reqs[i].Method, r.Status)]++
				}
				s, _ := doScrape("final")
				compare(s, tally, "after all concurrent requests completed")
			}
			inst.RequestStop()
			inst.AwaitStop()
		}
		check := func(s *vsched.Sched) *vsched.Failure { return failure }
		return setup, body, check
	}
}

func c20Body(c *ev.Ctx) {
	quick := c.Quick()
	if err := schedSelfTest(); err != nil {
		c.HarnessError("scheduler self-test: %v", err)
	}
	var execs, states, trans int64
	var tallies sync.Map
	for _, m := range []string{"deletion", "insertion"} {
		getSystem(m, c13D, c13B, 0)
	}
	modes := []string{"deletion"}
	if !quick {
		modes = append(modes, "insertion")
	}
	nSeq := int64(0)
	for _, mode := range modes {
		L := c13Letters(mode)
		letters := []httpReq{L["GET"], {"HEAD", "", "HEAD"}, {"PUT", "x", "PUT"}, L["valid1"], L["unsat"], {"POST", "not json", "notjson"}}
		// body-size classes: just above 1, 8 and 32 MiB (sizes at which limits, buffers and spill-to-disk
		// thresholds are commonly placed); whatever is answered must be counted like any other response
		big := []httpReq{{"POST", "@repeat:1048577:x", "POST 1 MiB+1 not-JSON"}, {"POST", "@repeat:9437184:x", "POST 9 MiB not-JSON"}, {"PUT", "@repeat:9437184:x", "PUT 9 MiB"}, {"POST", "@repeat:34603008:x", "POST 33 MiB not-JSON"}}
		if !quick {
			big = append(big, httpReq{"POST", "@repeat:5242880:x", "POST 5 MiB"}, httpReq{"POST", "@repeat:17825792:x", "POST 17 MiB"}, httpReq{"POST", "@repeat:68157440:x", "POST 65 MiB"}, httpReq{"GET", "@repeat:9437184:x", "GET with a 9 MiB body"})
		}
		maxL := 2
		if !quick {
			maxL = 3
		}
		var seqs [][]httpReq
		for _, bq := range big {
			seqs = append(seqs, []httpReq{bq}, []httpReq{letters[3], bq, letters[0]})
		}
		var rec func(cur []httpReq)
		rec = func(cur []httpReq) {
			if len(cur) > 0 {
				seqs = append(seqs, append([]httpReq{}, cur...))
			}
			if len(cur) == maxL {
				return
			}
			for _, l := range letters {
				rec(append(cur, l))
			}
		}
		rec(nil)
		// one longer history mixing everything (starts from non-initial states)
		long := []httpReq{}
		for i := 0; i < 12; i++ {
			long = append(long, letters[(i*5+i/6)%len(letters)])
		}
		seqs = append(seqs, long)
		par := 8
		if vsched.HasSharedState() {
			par = 1 // the tree under check keeps package-level state: executions must not overlap in this process
		}
		sem := make(chan struct{}, par)
		var wg sync.WaitGroup
		for _, sq := range seqs {
			if c.Expired() {
				c.Cap("sequential histories: budget")
				break
			}
			wg.Add(1)
			sem <- struct{}{}
			go func(sq []httpReq) {
				defer wg.Done()
				defer func() { <-sem }()
				sc := c20Scenario{Mode: mode, Reqs: sq}
				// one schedule (sequential clients), but every single environment deviation
				// (a server deadline passing, if the tree under check sets one) is explored
				e := &vsched.Explorer{Bound: 0, MaxSteps: 2000000, Workers: 1, NewRun: c20Run(c, &sc, &tallies), AfterRun: vhttp.Uninstall, MaxChoiceDev: 1,
					Filter: func(p *vsched.Point, alt int) bool { return strings.HasPrefix(p.Label, "choose:") }}
				e.OnFailure = func(choices []int, s *vsched.Sched, f *vsched.Failure) {
					rs := sc
					rs.Choices = choices
					c.Violation("sequential|"+mode+"|"+seqKey(sq), f.Kind+": "+f.Msg, rs)
				}
				e.Explore()
				atomic.AddInt64(&execs, e.Execs)
				atomic.AddInt64(&trans, int64(len(sq))*e.Execs)
			}(sq)
		}
		wg.Wait()
		nSeq += int64(len(seqs))
		c.Logf("%s: %d sequential histories", mode, len(seqs))
		c.Sample(c20Scenario{Mode: mode, Reqs: seqs[len(seqs)/3]})
	}
	tallies.Range(func(k, v any) bool { states++; return true })
	// ---- concurrent: interleavings with scraper threads -------------------------------
	type job struct {
		mode    string
		letters []string
		scrapes int
		bound   int
	}
	// cheap requests with no scraper: deep preemption bound (a lost update between two
	// wrapper steps of overlapping requests needs both in flight: >= 3 preemptions)
	jobs := []job{{"deletion", []string{"GET", "notjson"}, 0, 3}, {"deletion", []string{"valid1", "notjson"}, 1, 1}, {"deletion", []string{"GET", "unsat"}, 2, 1}}
	if !quick {
		jobs = append(jobs, job{"insertion", []string{"unsat", "valid2"}, 1, 1}, job{"insertion", []string{"GET", "notjson", "unsat"}, 1, 1}, job{"deletion", []string{"unsat", "notjson"}, 1, 2})
	}
	per := map[string]any{}
	allDone := true
	// availability under load: 1, 4, 5 (9, 17 thorough) requests held in flight, then a scrape
	loads := []int{1, 4, 5}
	if !quick {
		loads = append(loads, 9, 17)
	}
	for _, ld := range loads {
		for _, mode := range modes {
			sc := c20Scenario{Mode: mode, Load: ld}
			name := fmt.Sprintf("%s: %d requests held in flight + scrape", mode, ld)
			e := &vsched.Explorer{Bound: 0, Fine: false, MaxSteps: 2000000, Workers: 1, Deadline: c.Deadline, NewRun: c20Run(c, &sc, nil), AfterRun: vhttp.Uninstall}
			e.OnFailure = func(choices []int, s *vsched.Sched, f *vsched.Failure) {
				if f.Kind == "replay-divergence" {
					c.HarnessError("replay divergence: %s", f.Msg)
				}
				rs := sc
				rs.Choices = choices
				c.Violation(fmt.Sprintf("load|%s|%d|%s", mode, ld, f.Kind), f.Kind+": "+f.Msg, rs)
				e.Stop()
			}
			e.Explore()
			execs += e.Execs
			trans += e.Transitions
			per[name] = map[string]any{"executions": e.Execs, "complete": !e.Capped}
			c.Logf("%s: executions=%d", name, e.Execs)
		}
	}
	for _, jb := range jobs {
		L := c13Letters(jb.mode)
		L["notjson"] = httpReq{"POST", "not json", "notjson"}
		sc := c20Scenario{Mode: jb.mode, Concurrent: true, Scrapes: jb.scrapes}
		for _, l := range jb.letters {
			sc.Reqs = append(sc.Reqs, L[l])
		}
		name := fmt.Sprintf("%s %v + %d scraper(s) bound=%d", jb.mode, jb.letters, jb.scrapes, jb.bound)
		if c.Expired() || c.NViolations() > 0 {
			c.Cap(name + " not run")
			allDone = false
			continue
		}
		var mu sync.Mutex
		nfail := 0
		e := &vsched.Explorer{Bound: jb.bound, Fine: true, UseKeys: false, CountOnly: true, MaxSteps: 2000000, Workers: 1 /* one execution at a time: the code under test may (wrongly) hold package-level state, which parallel executions in one process would share */, Deadline: c.Deadline, NewRun: c20Run(c, &sc, nil), AfterRun: vhttp.Uninstall,
			MaxChoiceDev: 1,
			Filter: func(p *vsched.Point, alt int) bool {
				return strings.HasPrefix(p.Label, "choose:") || (sutThread(p.Running) && sutThread(p.Enabled[alt]))
			}}
		e.OnFailure = func(choices []int, s *vsched.Sched, f *vsched.Failure) {
			if f.Kind == "replay-divergence" {
				c.HarnessError("replay divergence: %s", f.Msg)
			}
			mu.Lock()
			defer mu.Unlock()
			nfail++
			rs := sc
			rs.Choices = choices
			c.Violation(fmt.Sprintf("concurrent|%s|%v|%s", jb.mode, jb.letters, f.Kind), f.Kind+": "+f.Msg, rs)
			if nfail >= 2 {
				e.Stop()
			}
		}
		e.Explore()
		c.Logf("%s: executions=%d states=%d cut=%d capped=%v outcomes=%d", name, e.Execs, e.States, e.Cut, e.Capped, len(e.Outcomes()))
		execs += e.Execs
		states += e.States
		trans += e.Transitions
		var oc []string
		for k := range e.Outcomes() {
			oc = append(oc, k)
		}
		sort.Strings(oc)
		if len(oc) > 6 {
			oc = oc[:6]
		}
		per[name] = map[string]any{"executions": e.Execs, "states": e.States, "complete": !e.Capped, "distinct_outcomes": len(e.Outcomes()), "outcome_samples": oc}
		if e.Capped {
			allDone = false
			c.Cap(name + " hit the budget")
		}
		c.Sample(sc)
	}
	c.Set("states", states)
	c.Set("transitions", trans)
	e2e := int64(0)
	if c.NViolations() == 0 {
		e2e = c20E2E(c)
	}
	c.Set("e2e_label_pairs_validated_on_real_binary", e2e)
	c.Set("traces_validated_against_impl", execs+e2e)
	c.Set("sequential_histories", nSeq)
	c.Set("scrapes_that_observed_a_request_in_flight", atomic.LoadInt64(&c20InFlightSeen))
	c.Set("concurrent_scenarios", per)
	c.Set("exhaustive", allDone && len(c.CapsHit()) == 0)
	c.Set("rule", "sequential: every request sequence of length <=2 (3) over {GET, HEAD, PUT, POST valid, POST unsatisfiable, POST not-JSON} (+ one 12-request history) on a fresh real server.Run, the registry scraped through the real metrics handler on the metrics address after every request; state = tally of (method, code); oracle: http_requests_total{/prove,method,code} equals the responses sent for every label pair and no other pair is non-zero, in-flight gauge 0. concurrent: 2-3 client threads + 1-2 scraper threads, every interleaving of handler-thread steps with <=1 preemption (statement-level points), scrapes judged against the ground truth at the instant the metrics handler ran (gauge <= requests being served, handlers returned <= counted <= returned + running), exact equality at quiescence")
	c.Assume("promhttp/prometheus internals run as atomic steps; non-standard HTTP methods are not in the alphabet (promhttp folds them, the statement does not say how)")
}
