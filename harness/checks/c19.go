package checks

import (
	"bytes"
	"encoding/json"
	"fmt"
	"math/big"
	"os"
	"os/exec"
	"path/filepath"
	"strings"
	"sync"
	"sync/atomic"
	"syscall"
	"time"

	"verif/harness/ev"
	"verif/harness/ref"
	"worldcoin/gnark-mbu/prover"
)

// C19: the command-line pipeline, on the real binary built from the tree.

type c19Case struct {
	Stage    string   `json:"stage"` // prove | verify | history
	SysMode  string   `json:"system_mode"`
	D        int      `json:"depth"`
	B        int      `json:"batch"`
	ModeFlag string   `json:"mode_flag"` // "", insertion, deletion, bogus
	Keys     string   `json:"keys"`      // right | other | missing | truncated | converted
	Params   string   `json:"params,omitempty"`
	Hash     string   `json:"hash,omitempty"`  // emitted | plus1 | plusr | zz | absent
	Proof    string   `json:"proof,omitempty"` // emitted | tamper<i> | braces | empty
	Steps    []string `json:"steps,omitempty"`
}

func init() {
	Registry["C19"] = func() {
		ev.Main("C19", "exploration", 420*time.Second, 45*time.Minute, c19Body, func(c *ev.Ctx, _ json.RawMessage) {
			// a cell is a handful of CLI runs sharing files: replay re-runs the (cheap) table
			c19Body(c)
		})
	}
}

type c19Env struct {
	mode           string
	d, b           int
	keys, otherKey string
	truncated      string
	converted      string
	params         []byte
	otherParams    []byte
	hash           *big.Int
	proof          []byte // as emitted by a successful prove
	ps             *prover.ProvingSystem
}

func modeArgs(flag string) []string {
	if flag == "" {
		return nil
	}
	return []string{"--mode", flag}
}

func (e *c19Env) keyPath(k string) string {
	switch k {
	case "right":
		return e.keys
	case "other":
		return e.otherKey
	case "truncated":
		return e.truncated
	case "empty", "header4", "header8", "tailcut":
		return e.keys + "." + k
	case "converted":
		return e.converted
	}
	return filepath.Join(scratchDir(), "no-such-keys-file")
}

// verifies says whether the (independently decoded) proof is valid for h under the system's keys.
func (e *c19Env) verifies(ps *prover.ProvingSystem, proofJSON []byte, h *big.Int) bool {
	pr, err := decodeProofIndependentlyV(proofJSON)
	if err != nil {
		return false
	}
	return safeVerify(ps, "insertion", h, pr) == nil // the public witness is the input hash alone in both modes
}

func c19Body(c *ev.Ctx) {
	quick := c.Quick()
	if _, err := repoBinary(); err != nil {
		c.HarnessError("%v", err)
	}
	dims := [][2]int{{2, 2}}
	if !quick {
		dims = append(dims, [2]int{3, 1}) // the generator fills 2*batch leaves: the tree must hold them
	}
	var cells, proofsOK, verifyOK, verifyRejected, shortVariants int64
	classes := map[string]bool{}
	var cmu sync.Mutex
	for _, dm := range dims {
		d, b := dm[0], dm[1]
		envs := map[string]*c19Env{}
		// ---- setup (both modes in parallel) and gen-test-params -----------------------
		var wg sync.WaitGroup
		var setupFail atomic.Value
		for _, mode := range []string{"insertion", "deletion"} {
			e := &c19Env{mode: mode, d: d, b: b, keys: filepath.Join(scratchDir(), fmt.Sprintf("keys-%s-%d-%d.ps", mode, d, b))}
			envs[mode] = e
			wg.Add(1)
			go func(e *c19Env) {
				defer wg.Done()
				res, err := runCLI(nil, 20*time.Minute, "setup", "--mode", e.mode, "--output", e.keys, "--tree-depth", fmt.Sprint(d), "--batch-size", fmt.Sprint(b))
				if err != nil || res.Exit != 0 {
					setupFail.Store(fmt.Sprintf("setup %s (%d,%d) failed: %v %s", e.mode, d, b, err, tailStr(res.Stderr)))
					return
				}
				g, err := runCLI(nil, 5*time.Minute, "gen-test-params", "--mode", e.mode, "--tree-depth", fmt.Sprint(d), "--batch-size", fmt.Sprint(b))
				if err != nil || g.Exit != 0 {
					setupFail.Store("gen-test-params failed")
					return
				}
				e.params = g.Stdout
				var doc struct {
					InputHash string `json:"inputHash"`
				}
				json.Unmarshal(g.Stdout, &doc)
				e.hash = bigs(doc.InputHash)
				e.ps, err = prover.ReadSystemFromFile(e.keys)
				if err != nil {
					setupFail.Store("keys written by setup do not load: " + err.Error())
				}
				data, _ := os.ReadFile(e.keys)
				e.truncated = e.keys + ".cut"
				os.WriteFile(e.truncated, data[:len(data)*2/3], 0o644)
				// what an interrupted or still running setup leaves: nothing yet, the dimension header
				// only (4 or 8 bytes), everything but the tail
				os.WriteFile(e.keys+".empty", nil, 0o644)
				os.WriteFile(e.keys+".header4", data[:4], 0o644)
				os.WriteFile(e.keys+".header8", data[:8], 0o644)
				os.WriteFile(e.keys+".tailcut", data[:len(data)-4096], 0o644)
			}(e)
		}
		wg.Wait()
		if m := setupFail.Load(); m != nil {
			c.Violation(fmt.Sprintf("pipeline|setup d=%d b=%d", d, b), m.(string), nil)
			continue
		}
		envs["insertion"].otherKey, envs["deletion"].otherKey = envs["deletion"].keys, envs["insertion"].keys
		envs["insertion"].otherParams, envs["deletion"].otherParams = envs["deletion"].params, envs["insertion"].params
		c.Logf("dims (%d,%d): keys and parameters ready", d, b)

		type job func()
		var jobs []job
		run := func(js []job) {
			sem := make(chan struct{}, 12)
			var wg sync.WaitGroup
			for _, j := range js {
				if c.Expired() {
					c.Cap("budget reached")
					break
				}
				wg.Add(1)
				sem <- struct{}{}
				go func(j job) { defer wg.Done(); defer func() { <-sem }(); j() }(j)
			}
			wg.Wait()
		}
		note := func(class string) {
			cmu.Lock()
			classes[class] = true
			cmu.Unlock()
			atomic.AddInt64(&cells, 1)
		}
		// ---- stage prove: mode flag x keys x params -------------------------------------
		for _, mode := range []string{"insertion", "deletion"} {
			e := envs[mode]
			for _, mf := range []string{mode, e.otherModeName(), "bogus", ""} {
				for _, k := range []string{"right", "other", "missing", "truncated", "empty", "header4", "header8", "tailcut"} {
					for _, pk := range []string{"own", "other", "garbage", "empty", "perturbed"} {
						if (mf != mode || k != "right") && pk != "own" && pk != "other" {
							continue // garbage/empty/perturbed parameters only with the right mode and keys
						}
						if c19PartialKeys[k] && (mf != mode || pk != "own") {
							continue // partially written keys files only with the right mode and parameters
						}
						mf, k, pk := mf, k, pk
						jobs = append(jobs, func() {
							var stdin []byte
							switch pk {
							case "own":
								stdin = e.params
							case "other":
								stdin = e.otherParams
							case "garbage":
								stdin = []byte("{not json")
							case "empty":
								stdin = []byte{}
							case "perturbed":
								var doc map[string]any
								json.Unmarshal(e.params, &doc)
								doc["postRoot"] = "0x5"
								stdin, _ = json.Marshal(doc)
							}
							args := append([]string{"prove"}, modeArgs(mf)...)
							args = append(args, "--keys-file", e.keyPath(k))
							res, err := runCLI(stdin, 15*time.Minute, args...)
							if err != nil {
								c.HarnessError("%v", err)
							}
							cs := c19Case{Stage: "prove", SysMode: mode, D: d, B: b, ModeFlag: mf, Keys: k, Params: pk}
							key := fmt.Sprintf("prove|%s keys d=%d b=%d|--mode %q|keys %s|params %s", mode, d, b, mf, k, pk)
							note(fmt.Sprintf("prove|%v|%s|%s|%s", mf == mode, mf, k, pk))
							shouldSucceed := mf == mode && k == "right" && pk == "own"
							if res.TimedOut {
								c.Violation(key+"|hang", "prove does not terminate", cs)
								return
							}
							if bytes.Contains(res.Stderr, []byte("panic:")) {
								c.Violation(key+"|panic", fmt.Sprintf("prove panics: %.200s", res.Stderr[bytes.Index(res.Stderr, []byte("panic:")):]), cs)
								return
							}
							if shouldSucceed {
								if res.Exit != 0 {
									c.Violation(key+"|fails", fmt.Sprintf("prove fails (exit %d) although mode, keys and generated parameters match: %s", res.Exit, tailStr(res.Stderr)), cs)
									return
								}
								if !bytes.HasSuffix(res.Stdout, []byte("\n")) || json.Valid(bytes.TrimSuffix(res.Stdout, []byte("\n"))) == false {
									c.Violation(key+"|stdout", fmt.Sprintf("prove's standard output is not exactly one JSON value and a newline: %.200q", res.Stdout), cs)
									return
								}
								if !e.verifies(e.ps, res.Stdout, e.hash) {
									c.Violation(key+"|invalid-proof", "prove exited 0 but the proof on stdout does not verify for the parameters' input hash", cs)
									return
								}
								atomic.AddInt64(&proofsOK, 1)
								cmu.Lock()
								if e.proof == nil {
									e.proof = res.Stdout
								}
								cmu.Unlock()
								return
							}
							if res.Exit == 0 {
								// a success status is only acceptable with a proof that really verifies under these keys
								ok := false
								if ps, err := prover.ReadSystemFromFile(e.keyPath(k)); err == nil && mf != "bogus" && mf != "" {
									var doc struct {
										InputHash string `json:"inputHash"`
									}
									if json.Unmarshal(stdin, &doc) == nil {
										if kk, h := refNumber(doc.InputHash); kk == 1 {
											ok = e.verifies(ps, res.Stdout, h)
										}
									}
								}
								if !ok {
									c.Violation(key+"|false-success", fmt.Sprintf("prove exits 0 (stdout %.120q) although %s", res.Stdout, c19Why(mf, mode, k, pk)), cs)
								}
							}
						})
					}
				}
			}
		}
		run(jobs)
		jobs = nil
		for _, mode := range []string{"insertion", "deletion"} {
			if envs[mode].proof == nil {
				c.Violation(fmt.Sprintf("pipeline|no-proof|%s d=%d b=%d", mode, d, b), "no proof could be produced through the pipeline; verify stage skipped", nil)
			}
		}
		if c.NViolations() > 0 {
			continue
		}
		// ---- stage verify ------------------------------------------------------------------
		for _, mode := range []string{"insertion", "deletion"} {
			e := envs[mode]
			hashes := map[string]string{"emitted": "0x" + e.hash.Text(16), "plus1": "0x" + new(big.Int).Add(e.hash, ref.B(1)).Text(16), "plusr": "0x" + new(big.Int).Add(e.hash, ref.R).Text(16), "decimal": e.hash.String(), "zz": "zz", "absent": "",
				// the same number with one / two leading zero digits (an odd and an even number of hex digits)
				"lead0": "0x0" + e.hash.Text(16), "lead00": "0x00" + e.hash.Text(16)}
			proofs := map[string][]byte{"emitted": e.proof, "braces": []byte("{}"), "empty": {}, "garbage": []byte("not a proof")}
			var pdoc map[string]any
			json.Unmarshal(e.proof, &pdoc)
			for i := 0; i < 8; i++ {
				var t map[string]any
				json.Unmarshal(e.proof, &t)
				flip := func(s string) string {
					bs := []byte(s)
					last := len(bs) - 1
					if bs[last] == '1' {
						bs[last] = '2'
					} else {
						bs[last] = '1'
					}
					return string(bs)
				}
				switch {
				case i < 2:
					a := t["ar"].([]any)
					a[i] = flip(a[i].(string))
				case i < 6:
					a := t["bs"].([]any)[(i-2)/2].([]any)
					a[(i-2)%2] = flip(a[(i-2)%2].(string))
				default:
					a := t["krs"].([]any)
					a[i-6] = flip(a[i-6].(string))
				}
				proofs[fmt.Sprintf("tamper%d", i)], _ = json.Marshal(t)
			}
			add := func(mf, k, hk, pk string) {
				jobs = append(jobs, func() {
					args := append([]string{"verify"}, modeArgs(mf)...)
					args = append(args, "--keys-file", e.keyPath(k))
					if hk != "absent" {
						args = append(args, "--input-hash", hashes[hk])
					}
					res, err := runCLI(proofs[pk], 15*time.Minute, args...)
					if err != nil {
						c.HarnessError("%v", err)
					}
					cs := c19Case{Stage: "verify", SysMode: mode, D: d, B: b, ModeFlag: mf, Keys: k, Hash: hk, Proof: pk}
					key := fmt.Sprintf("verify|%s keys d=%d b=%d|--mode %q|keys %s|hash %s|proof %s", mode, d, b, mf, k, hk, pk)
					note(fmt.Sprintf("verify|%s|%s|%s|%s", mf, k, hk, pk))
					if res.TimedOut {
						c.Violation(key+"|hang", "verify does not terminate", cs)
						return
					}
					if bytes.Contains(res.Stderr, []byte("panic:")) {
						c.Violation(key+"|panic", fmt.Sprintf("verify panics: %.200s", res.Stderr[bytes.Index(res.Stderr, []byte("panic:")):]), cs)
						return
					}
					valid := false
					if mf == "insertion" || mf == "deletion" {
						if ps, err := prover.ReadSystemFromFile(e.keyPath(k)); err == nil {
							if kk, h := refNumber(hashes[hk]); kk == 1 && hk != "absent" {
								valid = e.verifies(ps, proofs[pk], h)
							}
						}
					}
					if valid && res.Exit != 0 {
						c.Violation(key+"|rejects-valid", fmt.Sprintf("verify exits %d for a proof that is valid for the supplied hash under the given keys: %s", res.Exit, tailStr(res.Stderr)), cs)
					}
					if !valid && res.Exit == 0 {
						c.Violation(key+"|accepts-invalid", "verify exits 0 although the proof is not valid for the supplied input hash under the given keys (or the mode/keys/hash are unusable)", cs)
					}
					if valid {
						atomic.AddInt64(&verifyOK, 1)
					} else {
						atomic.AddInt64(&verifyRejected, 1)
					}
				})
			}
			for _, mf := range []string{mode, e.otherModeName(), "bogus", ""} {
				for _, k := range []string{"right", "other", "missing", "truncated", "empty", "header4", "header8", "tailcut"} {
					if c19PartialKeys[k] && mf != mode {
						continue
					}
					add(mf, k, "emitted", "emitted")
					if c19PartialKeys[k] {
						add(mf, k, "plus1", "garbage") // nothing here can be right: must not exit 0
					}
				}
			}
			// valid re-randomisations of the emitted proof in which each coordinate in turn has
			// leading zero bytes ("many independently generated proofs", made deterministic)
			vars, verr := proofVariants(e.ps, e.proof, 4000)
			if verr != nil {
				c.HarnessError("proof variants: %v", verr)
			}
			for vi, v := range vars {
				name := fmt.Sprintf("rerandomised%d(short %s)", vi, strings.Join(v.Short, ","))
				proofs[name] = v.JSON
				if !e.verifies(e.ps, v.JSON, e.hash) {
					c.HarnessError("re-randomised proof does not verify in-process")
				}
				add(mode, "right", "emitted", name)
				atomic.AddInt64(&shortVariants, 1)
			}
			for hk := range hashes {
				for pk := range proofs {
					if quick && strings.HasPrefix(pk, "tamper") && hk != "emitted" {
						continue
					}
					add(mode, "right", hk, pk)
				}
			}
		}
		run(jobs)
		jobs = nil
		// ---- histories: commands sharing files, in different orders ---------------------------
		for _, mode := range []string{"insertion", "deletion"} {
			e := envs[mode]
			e.converted = e.keys + ".raw2"
			hist := func(name string, f func() string) {
				jobs = append(jobs, func() {
					note("history|" + name)
					if msg := f(); msg != "" {
						c.Violation(fmt.Sprintf("history|%s d=%d b=%d|%s", mode, d, b, name), msg, c19Case{Stage: "history", SysMode: mode, D: d, B: b, Steps: []string{name}})
					}
				})
			}
			hexHash := "0x" + e.hash.Text(16)
			hist("convert-to-raw > prove(K') > verify(K) > verify(K')", func() string {
				r, _ := runCLI(nil, 15*time.Minute, "convert-to-raw", "--input", e.keys, "--output", e.converted)
				if r.Exit != 0 {
					return "convert-to-raw fails on a file written by setup: " + tailStr(r.Stderr)
				}
				p, _ := runCLI(e.params, 15*time.Minute, "prove", "--mode", mode, "--keys-file", e.converted)
				if p.Exit != 0 {
					return "prove fails with converted keys: " + tailStr(p.Stderr)
				}
				for _, k := range []string{e.keys, e.converted} {
					v, _ := runCLI(p.Stdout, 15*time.Minute, "verify", "--mode", mode, "--keys-file", k, "--input-hash", hexHash)
					if v.Exit != 0 {
						return "a proof made with converted keys is rejected by verify with " + filepath.Base(k) + ": " + tailStr(v.Stderr)
					}
				}
				return ""
			})
			hist("gen > prove > verify piped through files, twice (independent proofs)", func() string {
				for i := 0; i < 2; i++ {
					g, _ := runCLI(nil, 5*time.Minute, "gen-test-params", "--mode", mode, "--tree-depth", fmt.Sprint(d), "--batch-size", fmt.Sprint(b))
					p, _ := runCLI(g.Stdout, 15*time.Minute, "prove", "--mode", mode, "--keys-file", e.keys)
					if p.Exit != 0 {
						return "prove fails on freshly generated parameters: " + tailStr(p.Stderr)
					}
					v, _ := runCLI(p.Stdout, 15*time.Minute, "verify", "--mode", mode, "--keys-file", e.keys, "--input-hash", hexHash)
					if v.Exit != 0 {
						return "verify rejects the proof just produced: " + tailStr(v.Stderr)
					}
				}
				return ""
			})
			hist("verify before any proof exists (empty stdin)", func() string {
				v, _ := runCLI([]byte{}, 15*time.Minute, "verify", "--mode", mode, "--keys-file", e.keys, "--input-hash", hexHash)
				if v.Exit == 0 {
					return "verify exits 0 without a proof"
				}
				return ""
			})
			hist("proof of the other system offered to verify", func() string {
				o := envs[e.otherModeName()]
				v, _ := runCLI(o.proof, 15*time.Minute, "verify", "--mode", mode, "--keys-file", e.keys, "--input-hash", "0x"+o.hash.Text(16))
				if v.Exit == 0 {
					return "verify accepts a proof made by the other mode's proving system"
				}
				return ""
			})
			hist("export-solidity and export-vk from the keys file", func() string {
				outp := e.keys + ".sol"
				r, _ := runCLI(nil, 15*time.Minute, "export-solidity", "--keys-file", e.keys, "--output", outp)
				data, _ := os.ReadFile(outp)
				if r.Exit != 0 || !bytes.Contains(data, []byte("uint256[1] calldata input")) {
					return "export-solidity fails or does not produce a verifier with one public input"
				}
				r, _ = runCLI(nil, 15*time.Minute, "export-solidity", "--keys-file", e.keyPath("missing"))
				if r.Exit == 0 {
					return "export-solidity exits 0 for a missing keys file"
				}
				return ""
			})
		}
		run(jobs)
		// ---- setup histories: the --output path already holds something (keys of the other mode with the
		// same dimensions, keys of the same mode, an interrupted earlier setup): after `setup` exits 0 the
		// pipeline of the mode given to setup must work with that file
		{
			type sh struct {
				name, mode string
				prior      string // path whose content is put at the output path first
			}
			var hs []sh
			for _, mode := range []string{"insertion", "deletion"} {
				e := envs[mode]
				hs = append(hs, sh{"keys of the other mode (same dimensions) at --output", mode, e.otherKey}, sh{"an interrupted earlier setup (last 4 KiB missing) at --output", mode, e.keys + ".tailcut"})
				if !quick {
					hs = append(hs, sh{"keys of the same mode at --output", mode, e.keys}, sh{"an 8-byte header at --output", mode, e.keys + ".header8"})
				}
			}
			var sjobs []job
			for i, h := range hs {
				i, h := i, h
				sjobs = append(sjobs, func() {
					e := envs[h.mode]
					out := filepath.Join(scratchDir(), fmt.Sprintf("resetup-%d-%d-%d.ps", d, b, i))
					defer os.Remove(out)
					data, err := os.ReadFile(h.prior)
					if err != nil || os.WriteFile(out, data, 0o644) != nil {
						return
					}
					note("setup-history|" + h.name)
					fail := func(msg string) {
						c.Violation("pipeline|setup-history|"+h.mode+"|"+h.name, fmt.Sprintf("setup --mode %s (%d,%d) with %s: %s", h.mode, d, b, h.name, msg), c19Case{Stage: "history", SysMode: h.mode, D: d, B: b, Steps: []string{"setup onto existing file", h.name}})
					}
					r, err := runCLI(nil, 20*time.Minute, "setup", "--mode", h.mode, "--output", out, "--tree-depth", fmt.Sprint(d), "--batch-size", fmt.Sprint(b))
					if err != nil {
						c.HarnessError("%v", err)
					}
					if r.Exit != 0 {
						return // refusing to overwrite is an honest failure
					}
					p, _ := runCLI(e.params, 15*time.Minute, "prove", "--mode", h.mode, "--keys-file", out)
					if p.Exit != 0 {
						fail("setup exited 0, but `prove` with the resulting keys file fails for generated parameters: " + tailStr(p.Stderr))
						return
					}
					v, _ := runCLI(p.Stdout, 15*time.Minute, "verify", "--mode", h.mode, "--keys-file", out, "--input-hash", "0x"+e.hash.Text(16))
					if v.Exit != 0 {
						fail("setup and prove exited 0, but `verify` rejects the proof under the same keys file: " + tailStr(v.Stderr))
					}
				})
			}
			run(sjobs)
		}
		// ---- a termination signal arriving in the middle of a one-shot command (stdin still open): the
		// command did not do its work, so it must not report success
		for _, mode := range []string{"deletion"} {
			e := envs[mode]
			for _, sig := range []syscall.Signal{syscall.SIGTERM, syscall.SIGINT} {
				for _, cmdline := range [][]string{
					{"verify", "--mode", mode, "--keys-file", e.keys, "--input-hash", "0x" + e.hash.Text(16)},
					{"prove", "--mode", mode, "--keys-file", e.keys}} {
					if quick && sig == syscall.SIGINT && cmdline[0] == "prove" {
						continue
					}
					exit, out, ok := runCLISignalled(sig, cmdline...)
					if !ok {
						continue // could not be started / ended before the signal: nothing to judge
					}
					note("signal|" + cmdline[0])
					if exit == 0 {
						c.Violation(fmt.Sprintf("signal|%s|%v", cmdline[0], sig), fmt.Sprintf("`%s` interrupted by %v while waiting for its input exits with status 0 (stdout %d bytes): success reported for work that was not done", cmdline[0], sig, len(out)), c19Case{Stage: "signal", SysMode: mode, D: d, B: b, Steps: append([]string{sig.String()}, cmdline...)})
					}
				}
			}
		}
		// unknown / missing mode for the commands that take one and no keys
		for _, cmdline := range [][]string{{"setup", "--output", filepath.Join(scratchDir(), "x.ps"), "--tree-depth", "1", "--batch-size", "1"}, {"setup", "--mode", "bogus", "--output", filepath.Join(scratchDir(), "x.ps"), "--tree-depth", "1", "--batch-size", "1"}, {"gen-test-params", "--tree-depth", "2", "--batch-size", "1"}, {"gen-test-params", "--mode", "bogus", "--tree-depth", "2", "--batch-size", "1"}, {"r1cs", "--mode", "bogus", "--output", filepath.Join(scratchDir(), "x.r1cs"), "--tree-depth", "1", "--batch-size", "1"}} {
			r, err := runCLI(nil, 10*time.Minute, cmdline...)
			if err != nil {
				c.HarnessError("%v", err)
			}
			note("mode|" + strings.Join(cmdline[:1], " "))
			if r.Exit == 0 {
				c.Violation("mode|"+strings.Join(cmdline, " "), "command exits 0 with an unknown or missing mode: "+strings.Join(cmdline, " "), c19Case{Stage: "mode", Steps: cmdline})
			}
		}
		c.Sample(c19Case{Stage: "prove", SysMode: "insertion", D: d, B: b, ModeFlag: "deletion", Keys: "right", Params: "own"})
		c.Sample(c19Case{Stage: "verify", SysMode: "deletion", D: d, B: b, ModeFlag: "deletion", Keys: "right", Hash: "plusr", Proof: "emitted"})
		for _, e := range envs {
			os.Remove(e.keys)
			os.Remove(e.truncated)
			for _, k := range []string{"empty", "header4", "header8", "tailcut"} {
				os.Remove(e.keys + "." + k)
			}
			os.Remove(e.converted)
		}
	}
	c.Set("evaluations", cells)
	c.Set("distinct_nontrivial", int64(len(classes)))
	c.Set("prove_successes_verified", proofsOK)
	c.Set("verify_cells_valid", verifyOK)
	c.Set("valid_proofs_with_a_short_coordinate_fed_to_verify", shortVariants)
	c.Set("verify_cells_invalid", verifyRejected)
	c.Set("exhaustive", len(c.CapsHit()) == 0)
	c.Set("rule", "cells of the decision table on the real binary: prove: (--mode flag in {right, other, bogus, absent}) x (keys in {right, other mode's, missing, cut at 2/3, empty, 4-byte header, 8-byte header, last 4 KiB missing}) x (params in {own, other mode's}) + {garbage, empty, perturbed} params with right mode/keys; verify: the same (mode x keys) product with the emitted hash/proof + (hash in {emitted, +1, +r, decimal, with one/two leading zero digits, zz, absent}) x (proof in {emitted, 8 single-digit tamperings, {}, empty, garbage}); histories: convert-to-raw then prove/verify across both files, repeated gen>prove>verify, verify without proof, other system's proof, export-solidity; setup/gen-test-params/r1cs with unknown or missing mode. Oracle: exit 0 <=> an independently decoded proof verifies in-process for the hash mod r under the given keys; prove's stdout is exactly one JSON value + newline")
	c.Assume("stderr content is free; verify's exit status is judged by what the given keys accept, the --mode flag only has to be a known mode")
}

func (e *c19Env) otherModeName() string {
	if e.mode == "insertion" {
		return "deletion"
	}
	return "insertion"
}

var c19PartialKeys = map[string]bool{"empty": true, "header4": true, "header8": true, "tailcut": true}

func c19Why(mf, mode, k, pk string) string {
	var w []string
	if mf != mode {
		w = append(w, fmt.Sprintf("--mode is %q for %s keys", mf, mode))
	}
	if k != "right" {
		w = append(w, "the keys file is "+k)
	}
	if pk != "own" {
		w = append(w, "the parameters are "+pk)
	}
	return strings.Join(w, ", ")
}

// runCLISignalled starts a command with its stdin held open (so that it cannot finish its work), lets it
// get under way, sends the signal and returns the exit status (-1 = killed by the signal). ok=false if the
// process had already ended when the signal was sent.
func runCLISignalled(sig syscall.Signal, args ...string) (exit int, stdout []byte, ok bool) {
	bin, err := repoBinary()
	if err != nil {
		return 0, nil, false
	}
	cmd := exec.Command(bin, args...)
	cmd.Dir = scratchDir()
	var so bytes.Buffer
	cmd.Stdout = &so
	pr, pw, err := os.Pipe()
	if err != nil {
		return 0, nil, false
	}
	cmd.Stdin = pr
	if err := cmd.Start(); err != nil {
		pr.Close()
		pw.Close()
		return 0, nil, false
	}
	pr.Close()
	done := make(chan struct{})
	go func() { cmd.Wait(); close(done) }()
	// not an oracle, only a way of not signalling a process that has not installed anything yet
	select {
	case <-done:
		pw.Close()
		return 0, nil, false
	case <-time.After(1500 * time.Millisecond):
	}
	cmd.Process.Signal(sig)
	select {
	case <-done:
	case <-time.After(2 * time.Minute):
		cmd.Process.Kill()
		<-done
		pw.Close()
		return -2, so.Bytes(), true // keeps running after the signal: not success either
	}
	pw.Close()
	return cmd.ProcessState.ExitCode(), so.Bytes(), true
}
