package checks

import (
	"encoding/json"
	"fmt"
	"math/big"
	"regexp"
	"strings"
	"time"

	"verif/harness/ev"
	"verif/harness/par"
	"verif/harness/ref"
	"worldcoin/gnark-mbu/prover"
)

type c16Case struct {
	Kind string `json:"kind"` // rt-ins | rt-del | str | scalar
	Doc  string `json:"doc"`  // JSON text handed to the decoder (str/scalar) or description of the parameter set (rt)
	Mode string `json:"mode,omitempty"`
	Path string `json:"field,omitempty"`
	S    string `json:"s,omitempty"`
}

func init() {
	Registry["C16"] = func() {
		ev.Main("C16", "exploration", 120*time.Second, 20*time.Minute, c16Body, func(c *ev.Ctx, raw json.RawMessage) {
			var cs c16Case
			if err := json.Unmarshal(raw, &cs); err != nil {
				c.HarnessError("%v", err)
			}
			key, msg := c16Decode(&cs)
			fmt.Printf("replay: %s %s\n", key, msg)
			if msg != "" {
				c.Violation(key, msg, cs)
			}
		})
	}
}

// safeUnmarshal: a decoder that panics on some document is a violation, not a harness crash.
func safeUnmarshal(data []byte, v any) (err error) {
	defer func() {
		if r := recover(); r != nil {
			err = fmt.Errorf("PANIC in decoder: %v", r)
		}
	}()
	return json.Unmarshal(data, v)
}

var (
	reDec = regexp.MustCompile(`^(0|[1-9][0-9]*)$`)
	reHex = regexp.MustCompile(`^0x[0-9a-f]+$`)
)

// refNumber: 1 = definitely a number (value returned), 0 = definitely not, -1 = unspecified.
func refNumber(s string) (int, *big.Int) {
	if reDec.MatchString(s) {
		v, _ := new(big.Int).SetString(s, 10)
		return 1, v
	}
	if reHex.MatchString(s) {
		v, _ := new(big.Int).SetString(s[2:], 16)
		return 1, v
	}
	t := s
	unspec := false
	if strings.HasPrefix(t, "+") || strings.HasPrefix(t, "-") {
		t = t[1:]
		unspec = true
	}
	if strings.Contains(t, "_") {
		t = strings.ReplaceAll(t, "_", "")
		unspec = true
	}
	low := strings.ToLower(t)
	if low != t {
		t = low
		unspec = true
	}
	if regexp.MustCompile(`^0[0-9]+$`).MatchString(t) || strings.HasPrefix(t, "0b") || strings.HasPrefix(t, "0o") {
		return -1, nil // leading-zero / binary / octal notations: not specified
	}
	if unspec {
		if k, _ := refNumber(t); k == 1 {
			return -1, nil
		}
	}
	return 0, nil
}

const c16InsTpl = `{"inputHash":%s,"startIndex":%s,"preRoot":%s,"postRoot":%s,"identityCommitments":[%s,"0x2"],"merkleProofs":[[%s,"0x4"],["0x5","0x6"]]}`
const c16DelTpl = `{"inputHash":%s,"deletionIndices":[%s,7],"preRoot":%s,"postRoot":%s,"identityCommitments":[%s,"0x2"],"merkleProofs":[[%s,"0x4"],["0x5","0x6"]]}`

var c16Fields = []string{"inputHash", "index", "preRoot", "postRoot", "identityCommitments[0]", "merkleProofs[0][0]"}

func c16Doc(mode string, field int, lit string) string {
	args := []any{`"0x10"`, `3`, `"0x11"`, `"0x12"`, `"0x1"`, `"0x3"`}
	args[field] = lit
	if mode == "insertion" {
		return fmt.Sprintf(c16InsTpl, args...)
	}
	return fmt.Sprintf(c16DelTpl, args...)
}

// c16Decode decodes the document of a str/scalar case and judges the outcome.
func c16Decode(cs *c16Case) (key, msg string) {
	var field int
	for i, f := range c16Fields {
		if f == cs.Path {
			field = i
		}
	}
	var err error
	var got *big.Int
	var idx uint32
	if cs.Mode == "insertion" {
		var p prover.InsertionParameters
		err = safeUnmarshal([]byte(cs.Doc), &p)
		if err == nil {
			switch field {
			case 0:
				got = &p.InputHash
			case 1:
				idx = p.StartIndex
			case 2:
				got = &p.PreRoot
			case 3:
				got = &p.PostRoot
			case 4:
				got = &p.IdComms[0]
			case 5:
				got = &p.MerkleProofs[0][0]
			}
		}
	} else {
		var p prover.DeletionParameters
		err = safeUnmarshal([]byte(cs.Doc), &p)
		if err == nil {
			switch field {
			case 0:
				got = &p.InputHash
			case 1:
				idx = p.DeletionIndices[0]
			case 2:
				got = &p.PreRoot
			case 3:
				got = &p.PostRoot
			case 4:
				got = &p.IdComms[0]
			case 5:
				got = &p.MerkleProofs[0][0]
			}
		}
	}
	if err != nil && strings.HasPrefix(err.Error(), "PANIC") {
		return fmt.Sprintf("decoder-panic|%s|%s", cs.Mode, cs.Path), fmt.Sprintf("decoding %s=%q: %v", cs.Path, cs.S, err)
	}
	switch cs.Kind {
	case "str":
		k, v := refNumber(cs.S)
		switch {
		case k == 1 && err != nil:
			return fmt.Sprintf("reject-number|%s|%s", cs.Mode, cs.Path), fmt.Sprintf("%s=%q is a number but decoding fails: %v", cs.Path, cs.S, err)
		case k == 1 && got.Cmp(v) != 0:
			return fmt.Sprintf("wrong-value|%s|%s", cs.Mode, cs.Path), fmt.Sprintf("%s=%q decodes to %s, should be %s", cs.Path, cs.S, got, v)
		case k == 0 && err == nil:
			return fmt.Sprintf("accept-non-number|%s|%s", cs.Mode, cs.Path), fmt.Sprintf("%s=%q is not a number but decoding succeeds with value %s", cs.Path, cs.S, got)
		}
	case "scalar":
		// S is the JSON literal; expectation encoded by the caller in Path suffix
		want := scalarWant[cs.S]
		switch {
		case want == "ok" && err != nil:
			return "reject-index|" + cs.Mode, fmt.Sprintf("index literal %s rejected: %v", cs.S, err)
		case want == "ok":
			v, _ := new(big.Int).SetString(cs.S, 10)
			if v.Uint64() != uint64(idx) {
				return "wrong-index|" + cs.Mode, fmt.Sprintf("index literal %s decodes to %d", cs.S, idx)
			}
		case want == "err" && err == nil:
			return "accept-bad-index|" + cs.Mode, fmt.Sprintf("index literal %s accepted as %d", cs.S, idx)
		}
	}
	return "", ""
}

var scalarWant = map[string]string{
	"0": "ok", "1": "ok", "4294967295": "ok", "2147483648": "ok",
	"4294967296": "err", "-1": "err", "1.5": "err", `"1"`: "err", "true": "err", "18446744073709551616": "err", `"0x1"`: "err", "[1]": "err", "{}": "err",
	"null": "skip", "1e2": "skip",
}

func c16Body(c *ev.Ctx) {
	quick := c.Quick()
	var evals int64
	distinct := map[string]bool{}
	// ---- A: round trip -----------------------------------------------------------
	V := []*big.Int{ref.B(0), ref.B(1), ref.B(255), ref.B(256), new(big.Int).Sub(ref.Pow2(248), ref.B(1)), ref.Pow2(248), new(big.Int).Sub(ref.R, ref.B(1)), ref.R, new(big.Int).Add(ref.R, ref.B(1)), new(big.Int).Sub(ref.Pow2(256), ref.B(1)), ref.Pow2(256), ref.Pow2(300)}
	IX := []uint32{0, 1, 1 << 31, 1<<32 - 1}
	eq := func(a, b *big.Int) bool { return a.Cmp(b) == 0 }
	shapes := [][]int{} // inner proof lengths per slot
	for b := 0; b <= 2; b++ {
		var rec func(cur []int)
		rec = func(cur []int) {
			if len(cur) == b {
				shapes = append(shapes, append([]int{}, cur...))
				return
			}
			for d := 0; d <= 2; d++ {
				rec(append(cur, d))
			}
		}
		rec(nil)
	}
	rt := 0
	for _, shape := range shapes {
		b := len(shape)
		nf := 3 + b // hash, pre, post, comms
		for _, l := range shape {
			nf += l
		}
		// every field takes every value while the others cycle in lock-step with a varying offset
		for f := 0; f < nf; f++ {
			for vi := range V {
				for off := 0; off < len(V); off += 1 {
					if quick && off%4 != 0 {
						continue
					}
					val := func(k int) big.Int {
						if k == f {
							return *new(big.Int).Set(V[vi])
						}
						return *new(big.Int).Set(V[(vi+off+k)%len(V)])
					}
					for _, nilSlices := range []bool{false, true} {
						if nilSlices && b != 0 {
							continue
						}
						ins := prover.InsertionParameters{InputHash: val(0), StartIndex: IX[(vi+off)%4], PreRoot: val(1), PostRoot: val(2)}
						del := prover.DeletionParameters{InputHash: val(0), PreRoot: val(1), PostRoot: val(2)}
						if !nilSlices {
							ins.IdComms, ins.MerkleProofs = []big.Int{}, [][]big.Int{}
							del.IdComms, del.MerkleProofs, del.DeletionIndices = []big.Int{}, [][]big.Int{}, []uint32{}
						}
						k := 3
						for i := 0; i < b; i++ {
							ins.IdComms = append(ins.IdComms, val(k))
							del.IdComms = append(del.IdComms, val(k))
							del.DeletionIndices = append(del.DeletionIndices, IX[(vi+off+i)%4])
							k++
						}
						for i := 0; i < b; i++ {
							pr := []big.Int{}
							for j := 0; j < shape[i]; j++ {
								pr = append(pr, val(k))
								k++
							}
							ins.MerkleProofs = append(ins.MerkleProofs, pr)
							del.MerkleProofs = append(del.MerkleProofs, append([]big.Int{}, pr...))
						}
						desc := fmt.Sprintf("shape=%v field=%d value=%s offset=%d nil=%v", shape, f, V[vi], off, nilSlices)
						// insertion
						js, err := json.Marshal(&ins)
						var back prover.InsertionParameters
						if err == nil {
							err = safeUnmarshal(js, &back)
						}
						ok := err == nil && eq(&back.InputHash, &ins.InputHash) && back.StartIndex == ins.StartIndex && eq(&back.PreRoot, &ins.PreRoot) && eq(&back.PostRoot, &ins.PostRoot) && len(back.IdComms) == len(ins.IdComms) && len(back.MerkleProofs) == len(ins.MerkleProofs)
						for i := 0; ok && i < len(ins.IdComms); i++ {
							ok = eq(&back.IdComms[i], &ins.IdComms[i])
						}
						for i := 0; ok && i < len(ins.MerkleProofs); i++ {
							ok = len(back.MerkleProofs[i]) == len(ins.MerkleProofs[i])
							for j := 0; ok && j < len(ins.MerkleProofs[i]); j++ {
								ok = eq(&back.MerkleProofs[i][j], &ins.MerkleProofs[i][j])
							}
						}
						if !ok {
							c.Violation("roundtrip|insertion", fmt.Sprintf("insertion parameters do not round-trip (%s): err=%v json=%s", desc, err, js), c16Case{Kind: "rt-ins", Doc: string(js)})
						}
						if ok && !strings.Contains(string(js), `"inputHash":"0x`) {
							c.Violation("format|insertion", "numbers are not rendered as 0x-hex: "+string(js), c16Case{Kind: "rt-ins", Doc: string(js)})
						}
						// deletion
						js, err = json.Marshal(&del)
						var dback prover.DeletionParameters
						if err == nil {
							err = safeUnmarshal(js, &dback)
						}
						ok = err == nil && eq(&dback.InputHash, &del.InputHash) && eq(&dback.PreRoot, &del.PreRoot) && eq(&dback.PostRoot, &del.PostRoot) && len(dback.IdComms) == len(del.IdComms) && len(dback.MerkleProofs) == len(del.MerkleProofs) && len(dback.DeletionIndices) == len(del.DeletionIndices)
						for i := 0; ok && i < len(del.IdComms); i++ {
							ok = eq(&dback.IdComms[i], &del.IdComms[i]) && dback.DeletionIndices[i] == del.DeletionIndices[i]
						}
						for i := 0; ok && i < len(del.MerkleProofs); i++ {
							ok = len(dback.MerkleProofs[i]) == len(del.MerkleProofs[i])
							for j := 0; ok && j < len(del.MerkleProofs[i]); j++ {
								ok = eq(&dback.MerkleProofs[i][j], &del.MerkleProofs[i][j])
							}
						}
						if !ok {
							c.Violation("roundtrip|deletion", fmt.Sprintf("deletion parameters do not round-trip (%s): err=%v json=%s", desc, err, js), c16Case{Kind: "rt-del", Doc: string(js)})
						}
						rt += 2
						distinct[fmt.Sprintf("rt-%v-%d-%d", shape, f, vi)] = true
						if rt == 2000 {
							c.Sample(c16Case{Kind: "rt-del", Doc: string(js)})
						}
					}
				}
			}
		}
	}
	evals += int64(rt)
	c.Set("roundtrip_parameter_sets", int64(rt))
	// ---- A2: decoding into a value that already holds another parameter set (non-initial state of the
	// destination), for every ordered pair of shapes: the value must afterwards equal the second set exactly
	{
		mk := func(shape []int, seed int) (prover.InsertionParameters, prover.DeletionParameters) {
			k := seed
			val := func() big.Int { k++; return *new(big.Int).Set(V[k%len(V)]) }
			ins := prover.InsertionParameters{InputHash: val(), StartIndex: IX[seed%4], PreRoot: val(), PostRoot: val(), IdComms: []big.Int{}, MerkleProofs: [][]big.Int{}}
			del := prover.DeletionParameters{InputHash: ins.InputHash, PreRoot: ins.PreRoot, PostRoot: ins.PostRoot, IdComms: []big.Int{}, MerkleProofs: [][]big.Int{}, DeletionIndices: []uint32{}}
			for i, l := range shape {
				cm := val()
				ins.IdComms = append(ins.IdComms, cm)
				del.IdComms = append(del.IdComms, cm)
				del.DeletionIndices = append(del.DeletionIndices, IX[(seed+i+1)%4])
				pr := []big.Int{}
				for j := 0; j < l; j++ {
					pr = append(pr, val())
				}
				ins.MerkleProofs = append(ins.MerkleProofs, pr)
				del.MerkleProofs = append(del.MerkleProofs, append([]big.Int{}, pr...))
			}
			return ins, del
		}
		canon := func(v any) string { // value-for-value rendering independent of the repository's encoder (nil == empty)
			switch p := v.(type) {
			case *prover.InsertionParameters:
				return fmt.Sprintf("%s %d %s %s %v %v", p.InputHash.String(), p.StartIndex, p.PreRoot.String(), p.PostRoot.String(), bigList(p.IdComms), bigMatrix(p.MerkleProofs))
			case *prover.DeletionParameters:
				return fmt.Sprintf("%s %v %s %s %v %v", p.InputHash.String(), append([]uint32{}, p.DeletionIndices...), p.PreRoot.String(), p.PostRoot.String(), bigList(p.IdComms), bigMatrix(p.MerkleProofs))
			}
			return "?"
		}
		reuse := 0
		for ai, sa := range shapes {
			for bi, sb := range shapes {
				func() {
					defer func() {
						// a decoded number that math/big cannot even print is a verdict about the decoder
						if r := recover(); r != nil {
							c.Violation("reuse|corrupt-value", fmt.Sprintf("decoding parameters of shape %v into a value that held shape %v yields a number that panics when used: %v", sb, sa, r), nil)
						}
					}()
					insA, delA := mk(sa, ai)
					insB, delB := mk(sb, bi+5)
					jA, e1 := json.Marshal(&insA)
					jB, e2 := json.Marshal(&insB)
					if e1 == nil && e2 == nil {
						var v prover.InsertionParameters
						if err := safeUnmarshal(jA, &v); err == nil {
							err = safeUnmarshal(jB, &v)
							if err != nil || canon(&v) != canon(&insB) {
								c.Violation("reuse|insertion", fmt.Sprintf("decoding insertion parameters of shape %v into a value that held shape %v: err=%v, value is %s, document says %s", sb, sa, err, canon(&v), canon(&insB)), c16Case{Kind: "rt-ins", Doc: string(jB)})
							}
						}
					}
					jA, e1 = json.Marshal(&delA)
					jB, e2 = json.Marshal(&delB)
					if e1 == nil && e2 == nil {
						var v prover.DeletionParameters
						if err := safeUnmarshal(jA, &v); err == nil {
							err = safeUnmarshal(jB, &v)
							if err != nil || canon(&v) != canon(&delB) {
								c.Violation("reuse|deletion", fmt.Sprintf("decoding deletion parameters of shape %v into a value that held shape %v: err=%v, value is %s, document says %s", sb, sa, err, canon(&v), canon(&delB)), c16Case{Kind: "rt-del", Doc: string(jB)})
							}
						}
					}
					reuse += 2
				}()
			}
		}
		evals += int64(reuse)
		c.Set("decode_into_used_value_pairs", int64(reuse))
	}
	// ---- B: acceptance -----------------------------------------------------------
	alpha := "019afgxXz_-+.e "
	var strsAll []string
	var rec func(cur string)
	maxLen := 4
	rec = func(cur string) {
		strsAll = append(strsAll, cur)
		if len(cur) == maxLen {
			return
		}
		for _, ch := range alpha {
			rec(cur + string(ch))
		}
	}
	rec("")
	for _, s := range []string{"0x", "zz", " 1", "1 ", "1.5", "1e2", "0x" + strings.Repeat("f", 65), "0x" + strings.Repeat("0", 70) + "1", "123456789012345678901234567890123456789012345678901234567890123456789012345678901234567890", "\t1", "1\n", "0x1g", "١"} {
		strsAll = append(strsAll, s)
	}
	var nNum, nNot, nSkip int64
	var cases []c16Case
	for _, mode := range []string{"insertion", "deletion"} {
		for fi, f := range c16Fields {
			if fi == 1 {
				continue
			}
			for _, s := range strsAll {
				lit, _ := json.Marshal(s)
				cases = append(cases, c16Case{Kind: "str", Mode: mode, Path: f, S: s, Doc: c16Doc(mode, fi, string(lit))})
			}
		}
		for lit := range scalarWant {
			if scalarWant[lit] == "skip" {
				continue
			}
			cases = append(cases, c16Case{Kind: "scalar", Mode: mode, Path: "index", S: lit, Doc: c16Doc(mode, 1, lit)})
		}
	}
	for _, s := range strsAll {
		switch k, _ := refNumber(s); k {
		case 1:
			nNum++
		case 0:
			nNot++
		default:
			nSkip++
		}
	}
	done := par.For(len(cases), func(i int) {
		key, msg := c16Decode(&cases[i])
		if msg != "" {
			c.Violation(key, msg, cases[i])
		}
	}, func() bool { return c.Expired() })
	evals += int64(done)
	if done < len(cases) {
		c.Cap("acceptance cases")
	} else {
		c.Set("exhaustive", true)
	}
	c.Sample(cases[777])
	c.Sample(cases[len(cases)-3])
	c.Set("numeric_strings_tried", int64(len(strsAll)))
	c.Set("strings_definitely_numbers", nNum)
	c.Set("strings_definitely_not_numbers", nNot)
	c.Set("strings_not_judged", nSkip)
	c.Set("evaluations", evals)
	c.Set("distinct_nontrivial", int64(len(distinct))+nNum+nNot)
	c.Set("rule", "A: every ragged shape with batch, depth in {0,1,2}; every field takes every value of V={0,1,255,256,2^248-1,2^248,r-1,r,r+1,2^256-1,2^256,2^300} while the others cycle through V (pairwise), nil and empty slices; decode(encode(p)) must equal p. B: every string of length <=4 over the 15-letter alphabet '019afgxXz_-+.e ' (+ long/odd strings) in each numeric string field of both modes, and JSON scalars in the index field; three-valued oracle (number / not a number / unspecified notations such as signs, underscores, 0X, leading zeros are not judged)")
	c.Assume("decimal notation and 0x-lowercase-hex are 'numbers'; other Go base-prefix notations are left unjudged")
}

func bigList(v []big.Int) []string {
	out := []string{}
	for i := range v {
		out = append(out, v[i].String())
	}
	return out
}

func bigMatrix(m [][]big.Int) [][]string {
	out := [][]string{}
	for i := range m {
		out = append(out, bigList(m[i]))
	}
	return out
}
