//go:build verif

package checks

import (
	"bytes"
	"encoding/json"
	"fmt"
	"math/big"

	"github.com/consensys/gnark-crypto/ecc"
	"github.com/consensys/gnark-crypto/ecc/bn254"
	"github.com/consensys/gnark/backend/groth16"
	"worldcoin/gnark-mbu/prover"
	"worldcoin/gnark-mbu/verifrt/vsched"

	"verif/harness/ev"
)

func init() { libIsolationHook = libIsolation }

// libIsolation explores every interleaving (<= 2 preemptions, statement-level points) of two threads
// that run Proof.MarshalJSON, ComputeInputHashInsertion/Deletion and the parameter JSON round trip of the
// instrumented prover package on different values; each thread's results must equal the sequential ones.
func libIsolation(c *ev.Ctx, keyPrefix string, which []int) (execs, states, trans int64, complete bool) {
	complete = true
	for _, k := range which {
		if c.NViolations() > 0 {
			break
		}
		name, nr := c13LibRun(c, k)
		e := &vsched.Explorer{Bound: 2, Fine: true, CountOnly: true, MaxSteps: 200000, Workers: 1, Deadline: c.Deadline, NewRun: nr}
		e.OnFailure = func(choices []int, s *vsched.Sched, f *vsched.Failure) {
			if f.Kind == "replay-divergence" {
				c.HarnessError("replay divergence: %s", f.Msg)
			}
			c.Violation(keyPrefix+name+"|"+f.Kind, f.Kind+": "+f.Msg, map[string]any{"scenario": "two threads call " + name + " on different values", "schedule": choices})
			e.Stop()
		}
		e.Explore()
		c.Logf("%s, 2 threads, bound=2: executions=%d capped=%v", name, e.Execs, e.Capped)
		execs += e.Execs
		states += e.States
		trans += e.Transitions
		if e.Capped {
			complete = false
			c.Cap("concurrent callers of " + name + ": budget reached")
		}
	}
	return
}

// c13LibRun: two scheduler threads call Proof.MarshalJSON, ComputeInputHashInsertion and the
// parameter JSON round trip on different values; each result must equal the sequential one.
const libHelpers = 6

func c13LibRun(c *ev.Ctx, k int) (string, func() (func(*vsched.Sched), func(), func(*vsched.Sched) *vsched.Failure)) {
	_, _, g1, g2 := bn254.Generators()
	mkProof := func(a, b, cc int64) *prover.Proof {
		var A, C bn254.G1Affine
		var B bn254.G2Affine
		A.ScalarMultiplication(&g1, big.NewInt(a))
		B.ScalarMultiplication(&g2, big.NewInt(b))
		C.ScalarMultiplication(&g1, big.NewInt(cc))
		ra, rb, rc := A.RawBytes(), B.RawBytes(), C.RawBytes()
		raw := append(append(append([]byte{}, ra[:]...), rb[:]...), rc[:]...)
		gp := groth16.NewProof(ecc.BN254)
		if _, err := gp.ReadFrom(bytes.NewReader(raw)); err != nil {
			c.HarnessError("synthetic proof: %v", err)
		}
		return &prover.Proof{Proof: gp}
	}
	proofs := []*prover.Proof{mkProof(1, 1, 2), mkProof(3, 2, 5)}
	proofJSON := [][]byte{}
	for _, p := range proofs {
		js, err := independentProofJSON(p)
		if err != nil {
			c.HarnessError("synthetic proof JSON: %v", err)
		}
		proofJSON = append(proofJSON, js)
	}
	mkDel := func(i int) *prover.DeletionParameters {
		return &prover.DeletionParameters{DeletionIndices: []uint32{uint32(i), uint32(i + 2)}, PreRoot: *big.NewInt(int64(3000 + i)), PostRoot: *big.NewInt(int64(4000 + i)), IdComms: []big.Int{*big.NewInt(int64(5 + i)), *big.NewInt(int64(6 + i))}, MerkleProofs: [][]big.Int{{*big.NewInt(int64(i))}, {*big.NewInt(int64(i + 1))}}}
	}
	mkParams := func(k int64) *prover.InsertionParameters {
		return &prover.InsertionParameters{StartIndex: uint32(k), PreRoot: *big.NewInt(1000 + k), PostRoot: *big.NewInt(2000 + k), IdComms: []big.Int{*big.NewInt(7 * k), *big.NewInt(9 * k)}, MerkleProofs: [][]big.Int{{*big.NewInt(k)}, {*big.NewInt(k + 1)}}}
	}
	helpers := []struct {
		name string
		f    func(i int) string
	}{
		{"Proof.MarshalJSON", func(i int) string {
			js, err := json.Marshal(proofs[i])
			if err != nil {
				return "error: " + err.Error()
			}
			return string(js)
		}},
		{"Proof.UnmarshalJSON", func(i int) string {
			var back prover.Proof
			if err := json.Unmarshal(proofJSON[i], &back); err != nil {
				return "error: " + err.Error()
			}
			var buf bytes.Buffer
			back.Proof.WriteRawTo(&buf)
			return fmt.Sprintf("%x", buf.Bytes())
		}},
		{"ComputeInputHashInsertion", func(i int) string {
			p := mkParams(int64(i + 1))
			if err := p.ComputeInputHashInsertion(); err != nil {
				return "error: " + err.Error()
			}
			return p.InputHash.Text(16)
		}},
		{"ComputeInputHashDeletion", func(i int) string {
			d := mkDel(i)
			if err := d.ComputeInputHashDeletion(); err != nil {
				return "error: " + err.Error()
			}
			return d.InputHash.Text(16)
		}},
		{"InsertionParameters JSON round trip", func(i int) string {
			pj, err := json.Marshal(mkParams(int64(i + 1)))
			if err != nil {
				return "marshal error: " + err.Error()
			}
			var back prover.InsertionParameters
			if err := json.Unmarshal(pj, &back); err != nil {
				return "unmarshal error: " + err.Error()
			}
			return string(pj) + fmt.Sprintf("|%+v", back)
		}},
		{"DeletionParameters JSON round trip", func(i int) string {
			dj, err := json.Marshal(mkDel(i))
			if err != nil {
				return "marshal error: " + err.Error()
			}
			var back prover.DeletionParameters
			if err := json.Unmarshal(dj, &back); err != nil {
				return "unmarshal error: " + err.Error()
			}
			return string(dj) + fmt.Sprintf("|%+v", back)
		}},
	}
	h := helpers[k]
	want := []string{h.f(0), h.f(1)} // sequential, outside the scheduler
	return h.name, func() (func(*vsched.Sched), func(), func(*vsched.Sched) *vsched.Failure) {
		got := make([]string, 2)
		body := func() {
			done := vsched.NewChan[int](2)
			for i := 0; i < 2; i++ {
				i := i
				vsched.GoNamed(fmt.Sprintf("worker%d", i), func() { got[i] = h.f(i); done.Send(i) })
			}
			done.Recv()
			done.Recv()
		}
		check := func(*vsched.Sched) *vsched.Failure {
			for i := range got {
				if got[i] != want[i] {
					return &vsched.Failure{Kind: "invariant", Msg: fmt.Sprintf("%s, thread %d: result differs from the sequential result when another thread runs the same helper on another value: %.200s vs %.200s", h.name, i, got[i], want[i])}
				}
			}
			return nil
		}
		return nil, body, check
	}
}

// independentProofJSON renders a proof document from gnark's struct fields without the repository's encoder.
func independentProofJSON(p *prover.Proof) ([]byte, error) {
	co, err := proofCoords(p.Proof)
	if err != nil {
		return nil, err
	}
	h := func(i int) string { return "0x" + co[i].Text(16) }
	return json.Marshal(map[string]any{"ar": []string{h(0), h(1)}, "bs": [][]string{{h(2), h(3)}, {h(4), h(5)}}, "krs": []string{h(6), h(7)}})
}
