//go:build verif

package checks

import (
	"fmt"
	"time"

	"worldcoin/gnark-mbu/verifrt/vsched"
	"worldcoin/gnark-mbu/verifrt/vsync"

	"verif/harness/ev"
)

func init() { pairIsolationHook = pairIsolation }

// executions longer than this are not enumerated (reported as a cap)
const pairMaxPoints = 40000

// pairIsolation explores, for every scenario, every interleaving of two threads running F(0) and F(1)
// through the instrumented repository packages (statement-level scheduling points). The preemption bound
// is chosen from the length of one execution: 2 for short ones, 1 otherwise. Each thread's result must
// equal the result of the same call made sequentially.
func pairIsolation(c *ev.Ctx, keyPrefix string, scs []pairScenario, deadline time.Time) (execs, states, trans int64, complete bool, per map[string]any) {
	complete = true
	per = map[string]any{}
	for _, sc := range scs {
		if c.NViolations() > 0 {
			break
		}
		sc := sc
		want := []string{sc.F(0), sc.F(1)} // sequential, outside the scheduler
		newRun := func() (func(*vsched.Sched), func(), func(*vsched.Sched) *vsched.Failure) {
			got := make([]string, 2)
			body := func() {
				// a wait group, so that the collecting thread becomes enabled only when both are done
				var wg vsync.WaitGroup
				wg.Add(2)
				for i := 0; i < 2; i++ {
					i := i
					vsched.GoNamed(fmt.Sprintf("worker%d", i), func() { got[i] = sc.F(i); wg.Done() })
				}
				wg.Wait()
			}
			check := func(*vsched.Sched) *vsched.Failure {
				for i := range got {
					if got[i] != want[i] {
						return &vsched.Failure{Kind: "invariant", Msg: fmt.Sprintf("%s, thread %d: result differs from the sequential result when another thread runs the same code on another value: %.200s vs %.200s", sc.Name, i, got[i], want[i])}
					}
				}
				return nil
			}
			return nil, body, check
		}
		mk := func(bound int) *vsched.Explorer {
			w := 1
			if sc.Parallel && !vsched.HasSharedState() {
				w = workers()
			}
			e := &vsched.Explorer{Bound: bound, Fine: true, MaxSteps: 4 * pairMaxPoints, Workers: w, Deadline: deadline, NewRun: newRun}
			e.OnFailure = func(choices []int, s *vsched.Sched, f *vsched.Failure) {
				if f.Kind == "replay-divergence" {
					c.HarnessError("replay divergence: %s", f.Msg)
				}
				c.Violation(keyPrefix+sc.Name+"|"+f.Kind, f.Kind+": "+f.Msg, map[string]any{"scenario": "two threads call " + sc.Name + " on different values", "schedule": choices})
				e.Stop()
			}
			return e
		}
		// the executions without preemption first (either thread first), to learn their length (and refuse executions too long to enumerate)
		e0 := mk(0)
		e0.MaxSteps = pairMaxPoints
		tooLong := false
		of := e0.OnFailure
		e0.OnFailure = func(choices []int, s *vsched.Sched, f *vsched.Failure) {
			if f.Kind == "horizon" {
				tooLong = true
				e0.Stop()
				return
			}
			of(choices, s, f)
		}
		e0.Explore()
		if tooLong {
			c.Logf("%s: more than %d scheduling points in one execution, not enumerated", sc.Name, pairMaxPoints)
			c.Cap(fmt.Sprintf("concurrent callers of %s: more than %d scheduling points per execution, interleavings not enumerated", sc.Name, pairMaxPoints))
			per[sc.Name] = map[string]any{"points_per_execution": fmt.Sprintf(">%d", pairMaxPoints), "executions": 0, "complete": false}
			complete = false
			continue
		}
		points := e0.MaxPoints
		bound := 1
		if points <= 250 {
			bound = 2
		}
		if sc.MaxBound > 0 && bound > sc.MaxBound {
			bound = sc.MaxBound
		}
		e := e0
		if c.NViolations() == 0 {
			e = mk(bound)
			e.Explore()
		}
		c.Logf("%s, 2 threads, %d points, bound=%d: executions=%d capped=%v", sc.Name, points, bound, e.Execs, e.Capped)
		execs += e.Execs
		states += e.States
		trans += e.Transitions
		per[sc.Name] = map[string]any{"points_per_execution": points, "preemption_bound": bound, "executions": e.Execs, "complete": !e.Capped}
		if e.Capped {
			complete = false
			c.Cap("concurrent callers of " + sc.Name + ": budget reached")
		}
	}
	return
}
