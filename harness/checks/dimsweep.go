package checks

// Dimension sweeps for C01/C02: the property statements quantify over "every tree depth and batch
// size". The other parts enumerate values exhaustively at depths 1..3 (+16/31/32) and batches 1..3;
// this part enumerates the DIMENSIONS exhaustively (every depth 1..32 x a batch-size set that
// contains every size up to 9 and both sides of 16 and 32) with a small menu per dimension whose
// invalid members put the defect into the LAST slot / the TOP path level, i.e. the places a
// dimension-dependent shortcut (chunked loops, "large batch" fast paths, depth thresholds) would touch.

import (
	"fmt"
	"math/big"

	"verif/harness/ref"
)

func sweepBatches(quick bool) []int {
	if quick {
		return []int{1, 2, 3, 4, 5, 6, 7, 8, 9, 15, 16, 17}
	}
	out := []int{}
	for b := 1; b <= 34; b++ {
		out = append(out, b)
	}
	return append(out, 63, 64, 65)
}

// quickSweepDim: the quick tier keeps every depth with batches 1..3, every batch size of the set at
// depths 2, 3, 5, and batches 4, 5, 8 at depths 8, 20, 30.
func quickSweepDim(d, b int) bool {
	if b <= 3 || d == 2 || d == 3 || d == 5 {
		return true
	}
	return (d == 8 || d == 20 || d == 30) && (b == 4 || b == 5 || b == 8)
}

func fitsTree(d int, n int64) bool { return d >= 40 || ref.Pow2(d).Cmp(big.NewInt(n)) >= 0 }

// insSweepMenu: for one (depth, batch): valid append between two occupied leaves, and invalid
// neighbours of it. kind selects gadget-bn (InsertionProof gadget) or full-engine-bn (whole Define).
func insSweepMenu(d, b int, kind string) []c01Case {
	var cases []c01Case
	size := ref.Pow2(d)
	add := func(bb insBatch) {
		if kind != "gadget-bn" {
			if h, ok := bb.refHash(ref.BN); ok {
				bb.Hash = h.String()
			} else {
				bb.Hash = "0"
			}
		}
		cases = append(cases, c01Case{Kind: kind, B: &bb})
	}
	// build(start, occupied) : batch whose paths are what a circuit without checks would be given
	build := func(start *big.Int, occ map[uint64]int64) insBatch {
		cur := ref.NewSparse(ref.BN, d)
		for k, v := range occ {
			cur.Set(k, big.NewInt(v))
		}
		bb := insBatch{Depth: d, Start: start.String(), Pre: cur.Root().String()}
		for i := 0; i < b; i++ {
			ix := new(big.Int).Add(start, big.NewInt(int64(i)))
			ix.Mod(ix, size)
			cm := big.NewInt(int64(7 + i))
			bb.Comms = append(bb.Comms, cm.String())
			bb.Proofs = append(bb.Proofs, strs(cur.Proof(ix.Uint64())))
			cur.Set(ix.Uint64(), cm)
		}
		bb.Post = cur.Root().String()
		return bb
	}
	last := new(big.Int).Sub(size, big.NewInt(1))
	// 1. valid: leaf 0 and the last leaf occupied, append at 1 (needs b+2 <= size); else into the empty tree at 0
	var valid *insBatch
	if fitsTree(d, int64(b)+2) {
		v := build(big.NewInt(1), map[uint64]int64{0: 11, last.Uint64(): 13})
		valid = &v
	} else if fitsTree(d, int64(b)) {
		v := build(big.NewInt(0), nil)
		valid = &v
	}
	if valid != nil {
		add(*valid)
		p := *valid
		p.Post = ref.BN.Mod(new(big.Int).Add(bigs(valid.Post), big.NewInt(1))).String()
		add(p)
		// top level element of the last slot's path corrupted (post-root recomputed accordingly is not
		// needed: the emptiness check must fail)
		p = *valid
		p.Proofs = append([][]string{}, valid.Proofs...)
		lp := append([]string{}, valid.Proofs[b-1]...)
		lp[d-1] = ref.BN.Mod(new(big.Int).Add(bigs(lp[d-1]), big.NewInt(1))).String()
		p.Proofs[b-1] = lp
		add(p)
		// ends exactly at the last leaf (valid when the tree is otherwise empty)
		add(build(new(big.Int).Sub(size, big.NewInt(int64(b))), nil))
	}
	// 2. the LAST slot hits an occupied leaf (all earlier slots are fine)
	if fitsTree(d, int64(b)) {
		add(build(new(big.Int).Sub(size, big.NewInt(int64(b))), map[uint64]int64{last.Uint64(): 13}))
	}
	// 3. the LAST slot lies one past the end (paths of the wrapped leaf 0, which is empty)
	if fitsTree(d, int64(b)-1) {
		add(build(new(big.Int).Sub(size, big.NewInt(int64(b)-1)), nil))
	}
	return cases
}

// delSweepMenu: for one (depth, batch): delete b occupied leaves (one slot padding when b >= 3), and
// invalid neighbours.
func delSweepMenu(d, b int, kind string) []c02Case {
	var cases []c02Case
	size := ref.Pow2(d)
	add := func(bb delBatch) {
		if kind != "gadget-bn" {
			if h, ok := bb.refHash(ref.BN); ok {
				bb.Hash = h.String()
			} else {
				bb.Hash = "0"
			}
		}
		cases = append(cases, c02Case{Kind: kind, B: &bb})
	}
	nLive := b
	if !fitsTree(d, int64(b)) {
		nLive = int(size.Int64())
	}
	// occupied leaves: spread over the tree, always including the last leaf
	pos := make([]uint64, nLive)
	for i := range pos {
		// i-th from the end with stride 1 near the end; the first one at leaf 0 if room
		pos[i] = new(big.Int).Sub(size, big.NewInt(int64(nLive-i))).Uint64()
	}
	if fitsTree(d, int64(nLive)+1) {
		pos[0] = 0
	}
	build := func(padSlot int, padIdx *big.Int) delBatch {
		cur := ref.NewSparse(ref.BN, d)
		for i, p := range pos {
			cur.Set(p, big.NewInt(int64(21+i)))
		}
		bb := delBatch{Depth: d, Pre: cur.Root().String()}
		for i := 0; i < b; i++ {
			if i == padSlot || i >= nLive {
				ix := padIdx
				if ix == nil || i != padSlot {
					ix = new(big.Int).Add(size, big.NewInt(int64(i))) // in [2^d, 2^(d+1)) when i < 2^d
					ix.Mod(ix, size)
					ix.Add(ix, size)
				}
				bb.Idx = append(bb.Idx, ix.String())
				bb.Items = append(bb.Items, "12345")
				g := make([]string, d)
				for j := range g {
					g[j] = fmt.Sprint(1000 + j)
				}
				bb.Proofs = append(bb.Proofs, g)
				continue
			}
			p := pos[i]
			bb.Idx = append(bb.Idx, fmt.Sprint(p))
			bb.Items = append(bb.Items, fmt.Sprint(21+i))
			bb.Proofs = append(bb.Proofs, strs(cur.Proof(p)))
			cur.Set(p, new(big.Int))
		}
		bb.Post = cur.Root().String()
		return bb
	}
	valid := build(-1, nil)
	add(valid)
	p := valid
	p.Post = ref.BN.Mod(new(big.Int).Add(bigs(valid.Post), big.NewInt(1))).String()
	add(p)
	// last slot presents the wrong value
	if nLive == b {
		p = valid
		p.Items = append([]string{}, valid.Items...)
		p.Items[b-1] = fmt.Sprint(21 + b)
		add(p)
		// top path element of the last slot corrupted
		p = valid
		p.Proofs = append([][]string{}, valid.Proofs...)
		lp := append([]string{}, valid.Proofs[b-1]...)
		lp[d-1] = ref.BN.Mod(new(big.Int).Add(bigs(lp[d-1]), big.NewInt(1))).String()
		p.Proofs[b-1] = lp
		add(p)
	}
	// last slot is padding with garbage (valid: that leaf stays), highest padding index
	add(build(b-1, new(big.Int).Sub(ref.Pow2(d+1), big.NewInt(1))))
	// last slot carries an index >= 2^(d+1): unprovable
	add(build(b-1, ref.Pow2(d+1)))
	if b >= 3 {
		add(build(b-2, size)) // padding in the middle, lowest padding index
	}
	return cases
}

var fullSweepDims = [][2]int{{4, 4}, {5, 5}, {6, 7}, {8, 6}, {10, 8}, {12, 3}, {20, 5}, {24, 2}, {30, 4}, {31, 3}}

func c01DimSweep(r *caseRunner, quick bool) {
	var cases []c01Case
	for d := 1; d <= 32; d++ {
		for _, b := range sweepBatches(quick) {
			if quick && !quickSweepDim(d, b) {
				continue
			}
			cases = append(cases, insSweepMenu(d, b, "gadget-bn")...)
		}
	}
	r.run("BN254 InsertionProof gadget, dimension sweep (every depth 1..32 x batch sizes, defects in the last slot / top level)", cases)
	cases = nil
	dims := fullSweepDims
	if quick {
		dims = dims[:6]
	}
	for _, dm := range dims {
		cases = append(cases, insSweepMenu(dm[0], dm[1], "full-engine-bn")...)
	}
	cases = append(cases, insSweepMenu(32, 2, "full-engine-bn")...)
	r.run("BN254 full InsertionMbuCircuit.Define (engine), dimension sweep", cases)
}

func c02DimSweep(r *caseRunner, quick bool) {
	var cases []c02Case
	for d := 1; d <= 31; d++ {
		for _, b := range sweepBatches(quick) {
			if quick && !quickSweepDim(d, b) {
				continue
			}
			cases = append(cases, delSweepMenu(d, b, "gadget-bn")...)
		}
	}
	runCases(r, "BN254 DeletionProof gadget, dimension sweep (every depth 1..31 x batch sizes, defects in the last slot / top level)", cases, c02Eval)
	cases = nil
	dims := fullSweepDims
	if quick {
		dims = dims[:6]
	}
	for _, dm := range dims {
		cases = append(cases, delSweepMenu(dm[0], dm[1], "full-engine-bn")...)
	}
	runCases(r, "BN254 full DeletionMbuCircuit.Define (engine), dimension sweep", cases, c02Eval)
}
