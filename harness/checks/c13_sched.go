//go:build verif

package checks

import (
	"bytes"
	"encoding/json"
	"fmt"
	"math/big"
	"os"
	"os/exec"
	"path/filepath"
	"strings"
	"sync"
	"time"

	"verif/harness/ev"
	"worldcoin/gnark-mbu/server"
	"worldcoin/gnark-mbu/verifrt/vhttp"
	"worldcoin/gnark-mbu/verifrt/vsched"
)

// C13: two (three) prove requests in flight at once, every interleaving of the
// statement-level steps of the handler path with <= 1 (2) preemptions.

type c13Scenario struct {
	Mode    string    `json:"mode"`
	Reqs    []httpReq `json:"requests"`
	Choices []int     `json:"schedule,omitempty"`
}

const c13D, c13B = 1, 1

func init() {
	Registry["C13"] = func() {
		ev.Main("C13", "model_checking", 300*time.Second, 40*time.Minute, c13Body, func(c *ev.Ctx, raw json.RawMessage) {
			var sc c13Scenario
			if err := json.Unmarshal(raw, &sc); err != nil {
				c.HarnessError("%v", err)
			}
			var first string
			for i := 0; i < 2; i++ {
				setup, body, check := c13Run(c, &sc)()
				s := vsched.Run(vsched.Config{Prefix: sc.Choices, MaxSteps: 2000000, Fine: true}, setup, body)
				vhttp.Uninstall(s)
				f := s.Fail
				if f == nil {
					f = check(s)
				}
				desc := "ok"
				if f != nil {
					desc = f.Kind + ": " + f.Msg
				}
				fmt.Printf("replay %d: %s\n", i, desc)
				if i == 0 {
					first = desc
				} else if desc != first {
					c.HarnessError("schedule does not replay deterministically: %q vs %q", first, desc)
				} else if f != nil {
					c.Violation("replay", desc, sc)
				}
			}
		})
	}
}

func c13Run(c *ev.Ctx, sc *c13Scenario) func() (func(*vsched.Sched), func(), func(*vsched.Sched) *vsched.Failure) {
	ps, err := getSystem(sc.Mode, c13D, c13B, 0)
	if err != nil {
		c.HarnessError("setup: %v", err)
	}
	return func() (func(*vsched.Sched), func(), func(*vsched.Sched) *vsched.Failure) {
		results := make([]*vhttp.Response, len(sc.Reqs))
		setup := func(s *vsched.Sched) { vhttp.Install(s) }
		body := func() {
			vsched.SetExplore(false)
			cfg := server.Config{ProverAddress: proverAddr, MetricsAddress: metricsAddr, Mode: sc.Mode}
			inst := server.Run(&cfg, ps)
			vhttp.WaitAccepting(proverAddr)
			vhttp.WaitAccepting(metricsAddr)
			done := vsched.NewChan[int](len(sc.Reqs))
			vhttp.Net().HoldConns(len(sc.Reqs))
			vsched.SetExplore(true)
			for i := range sc.Reqs {
				i := i
				vsched.GoNamed(fmt.Sprintf("client%d", i), func() {
					results[i] = vhttp.Do(fmt.Sprintf("c%d", i), proverAddr, sc.Reqs[i].Method, "/prove", []byte(sc.Reqs[i].Body))
					vsched.Observe("client%d:%s", i, classify(results[i]))
					done.Send(i)
				})
			}
			vhttp.Net().AwaitHeld()
			for range sc.Reqs {
				done.Recv()
			}
			vsched.SetExplore(false)
			inst.RequestStop()
			inst.AwaitStop()
		}
		check := func(s *vsched.Sched) *vsched.Failure {
			for i, r := range results {
				if r == nil {
					return &vsched.Failure{Kind: "invariant", Msg: fmt.Sprintf("request %d got no outcome", i)}
				}
				rq := sc.Reqs[i]
				want := refHTTP(sc.Mode, c13D, c13B, rq.Method, []byte(rq.Body))
				got := classify(r)
				ok := false
				for _, w := range want {
					ok = ok || w == got
				}
				if !ok {
					return &vsched.Failure{Kind: "invariant", Msg: fmt.Sprintf("request %d [%s] answered %q while %d requests were in flight; on its own it answers %v", i, rq.Why, got, len(sc.Reqs), want)}
				}
				if got == "200" {
					pr, err := decodeProofIndependently(r.Body)
					if err != nil {
						return &vsched.Failure{Kind: "invariant", Msg: fmt.Sprintf("request %d [%s]: 200 body is not a proof: %v", i, rq.Why, err)}
					}
					own := reqHash(rq.Body)
					if ve := safeVerify(ps, sc.Mode, own, pr); ve != nil {
						return &vsched.Failure{Kind: "invariant", Msg: fmt.Sprintf("request %d [%s]: returned proof does not verify for its own input hash: %v", i, rq.Why, ve)}
					}
					for j, o := range sc.Reqs {
						oh := reqHash(o.Body)
						if j != i && oh != nil && oh.Cmp(own) != 0 && safeVerify(ps, sc.Mode, oh, pr) == nil {
							return &vsched.Failure{Kind: "invariant", Msg: fmt.Sprintf("request %d received a proof that verifies for request %d's input hash", i, j)}
						}
					}
				}
			}
			return nil
		}
		return setup, body, check
	}
}

func reqHash(body string) *bigInt {
	var doc struct {
		InputHash string `json:"inputHash"`
	}
	if json.Unmarshal([]byte(body), &doc) != nil {
		return nil
	}
	k, v := refNumber(doc.InputHash)
	if k != 1 {
		return nil
	}
	return v
}

func c13Letters(mode string) map[string]httpReq {
	var v1, v2 map[string]any
	if mode == "insertion" {
		vb := validInsBatches(c13D, c13B)
		v1, v2 = insDoc(&vb[0]), insDoc(&vb[2]) // different tree states: the sibling paths (and everything derived from them) differ
	} else {
		vb := validDelBatches(c13D, c13B)
		v1, v2 = delDoc(&vb[0]), delDoc(&vb[2])
	}
	unsat := cloneDoc(v1)
	unsat["postRoot"] = "0x5"
	wd := cloneDoc(v1)
	wd["identityCommitments"] = []any{"0x1", "0x2"}
	nn := cloneDoc(v2)
	nn["preRoot"] = "zz"
	unsat2 := cloneDoc(v2)
	unsat2["postRoot"] = "0x5"
	// twins of valid1 that COLLIDE with it on everything but one field: same declared input hash with one
	// sibling changed (unprovable), and the same batch under another declared input hash (unprovable)
	badproof1 := cloneDoc(v1)
	if mp, ok := badproof1["merkleProofs"].([]any); ok && len(mp) > 0 {
		if row, ok := mp[0].([]any); ok && len(row) > 0 {
			nr := append([]any{}, row...)
			nr[0] = "0x" + new(big.Int).Add(bigs(fmt.Sprint(row[0])), big.NewInt(1)).Text(16)
			nmp := append([]any{}, mp...)
			nmp[0] = nr
			badproof1["merkleProofs"] = nmp
		}
	}
	badhash1 := cloneDoc(v1)
	badhash1["inputHash"] = "0x" + new(big.Int).Add(bigs(fmt.Sprint(v1["inputHash"])), big.NewInt(1)).Text(16)
	return map[string]httpReq{
		"valid1": {"POST", mustJSON(v1), "valid1"}, "valid2": {"POST", mustJSON(v2), "valid2"}, "unsat": {"POST", mustJSON(unsat), "unsat"}, "unsat2": {"POST", mustJSON(unsat2), "unsat2"},
		"badproof1": {"POST", mustJSON(badproof1), "badproof1"}, "badhash1": {"POST", mustJSON(badhash1), "badhash1"},
		"wrongdims": {"POST", mustJSON(wd), "wrongdims"}, "nonnumeric": {"POST", mustJSON(nn), "nonnumeric"}, "GET": {"GET", "", "GET"},
	}
}

func c13Body(c *ev.Ctx) {
	quick := c.Quick()
	if err := schedSelfTest(); err != nil {
		c.HarnessError("scheduler self-test: %v", err)
	}
	type job struct {
		mode    string
		letters []string
		bound   int
	}
	var jobs []job
	pairs := [][]string{{"valid1", "badproof1"}, {"badproof1", "valid1"}, {"valid1", "badhash1"}, {"badhash1", "valid1"}, {"valid1", "valid2"}, {"valid1", "unsat2"}, {"unsat2", "valid1"}, {"nonnumeric", "valid1"}, {"valid1", "valid1"}, {"unsat", "wrongdims"}, {"wrongdims", "valid2"}}
	if quick {
		// one proof per execution keeps an execution at ~3 core-seconds: the preempted thread
		// is the valid request in one order and the invalid one in the other
		// the two requests of a pair differ in every field (different tree states), so any
		// shared scratch state shows
		// requests that collide on everything but one field first (anything keyed by part of a request
		// confuses them), then requests that differ in every field
		jobs = append(jobs, job{"insertion", []string{"valid1", "badproof1"}, 1}, job{"deletion", []string{"badhash1", "valid1"}, 1},
			job{"deletion", []string{"unsat2", "valid1"}, 1},
			// two error responses with different contents: no proof is generated, so a deeper bound is cheap
			job{"insertion", []string{"nonnumeric", "wrongdims"}, 2},
			job{"insertion", []string{"valid1", "unsat2"}, 1})
	} else {
		for _, m := range []string{"insertion", "deletion"} {
			for _, p := range pairs {
				jobs = append(jobs, job{m, p, 1})
			}
			jobs = append(jobs, job{m, []string{"valid1", "valid2", "unsat"}, 1})
		}
		jobs = append(jobs, job{"insertion", pairs[0], 2}, job{"deletion", pairs[1], 2})
	}
	var wg sync.WaitGroup
	for _, m := range []string{"insertion", "deletion"} {
		wg.Add(1)
		go func(m string) { defer wg.Done(); getSystem(m, c13D, c13B, 0) }(m)
	}
	wg.Wait()
	var execs, states, trans int64
	outcomes := map[string]int64{}
	per := map[string]any{}
	allDone := true
	for _, jb := range jobs {
		L := c13Letters(jb.mode)
		sc := c13Scenario{Mode: jb.mode}
		for _, l := range jb.letters {
			sc.Reqs = append(sc.Reqs, L[l])
		}
		name := fmt.Sprintf("%s %v bound=%d", jb.mode, jb.letters, jb.bound)
		if c.Expired() || c.NViolations() > 0 {
			c.Cap(name + " not run")
			allDone = false
			continue
		}
		var mu sync.Mutex
		nfail := 0
		e := &vsched.Explorer{Bound: jb.bound, Fine: true, UseKeys: false, CountOnly: true, MaxSteps: 2000000, Workers: c13Workers() /* one execution at a time when the instrumented packages hold package-level state, which parallel executions in one process would share */, Deadline: c.Deadline, NewRun: c13Run(c, &sc), AfterRun: vhttp.Uninstall,
			// alternatives only between connection (handler) threads: the interleavings of
			// connection set-up, clients and server start-up/shut-down belong to C14
			MaxChoiceDev: 1,
			Filter: func(p *vsched.Point, alt int) bool {
				return strings.HasPrefix(p.Label, "choose:") || (sutThread(p.Running) && sutThread(p.Enabled[alt]))
			}}
		e.OnFailure = func(choices []int, s *vsched.Sched, f *vsched.Failure) {
			if f.Kind == "replay-divergence" {
				c.HarnessError("replay divergence: %s", f.Msg)
			}
			mu.Lock()
			defer mu.Unlock()
			nfail++
			rs := sc
			rs.Choices = choices
			c.Violation(fmt.Sprintf("isolation|%s|%v|%s", jb.mode, jb.letters, f.Kind), f.Kind+": "+f.Msg, rs)
			if nfail >= 2 {
				e.Stop()
			}
		}
		e.Explore()
		c.Logf("%s: executions=%d states=%d cut=%d capped=%v maxpoints=%d outcomes=%d slow=%d slowcut=%d", name, e.Execs, e.States, e.Cut, e.Capped, e.MaxPoints, len(e.Outcomes()), e.SlowExecs, e.SlowCut)
		execs += e.Execs
		states += e.States
		trans += e.Transitions
		for k, v := range e.Outcomes() {
			outcomes[name+" -> "+k] += v
		}
		per[name] = map[string]any{"executions": e.Execs, "states": e.States, "complete": !e.Capped, "distinct_outcomes": len(e.Outcomes())}
		if e.Capped {
			allDone = false
			c.Cap(name + " hit the budget")
		}
		c.Sample(sc)
	}
	// ---- library-level isolation: two threads run the same pure helpers of the response / hashing
	// path on different values (no server, no proving: cheap, so preemption bound 2)
	if c.NViolations() == 0 && !c.Expired() {
		le, ls, lt, done, lper := pairIsolation(c, "isolation|library helpers|", libScenarios(c, 0, 1, 2, 3, 4, 5), c.Deadline)
		execs += le
		states += ls
		trans += lt
		per["library helpers x2"] = lper
		if !done {
			allDone = false
		}
	}
	// ---- separate free-running race pass (real net/http, real goroutines, -race) ----
	if c.NViolations() == 0 {
		runs, reports, msg := c13RacePass(c)
		c.Set("race_pass", map[string]any{"concurrent_requests": runs, "reports_with_repository_frames": reports, "exhaustive": false, "note": msg})
		if reports > 0 {
			c.Violation("data-race", "the race detector reports a data race with a frame in worldcoin/gnark-mbu under concurrent prove requests: "+msg, nil)
		}
	}
	c.Set("states", states)
	c.Set("transitions", trans)
	c.Set("executions", execs)
	c.Set("traces_validated_against_impl", execs)
	c.Set("scenarios", per)
	c.Set("distinct_outcomes", int64(len(outcomes)))
	c.Set("exhaustive", allDone)
	c.Set("rule", "2 (3) client threads each issuing one POST to the real instrumented handler path (server.go, marshal.go, *_proving_system.go) with a shared real proving system at (1,1); every interleaving of statement-level steps with <=1 preemption (2 thorough) from the moment the clients start, oracle per execution: each response equals the class the request gets on its own, each 200 body verifies for its own input hash and not for the other request's; gnark proving runs as an atomic step; plus a separate free-running -race pass on real net/http (a sample, not exhaustive)")
	c.Assume("interleavings inside gnark/promhttp/encoding-json are not explored (atomic steps); memory-model effects only through the separate -race sample")
}

type bigInt = big.Int

// c13RacePass builds cmd/racepass with -race against the tree under check and runs it.
func c13RacePass(c *ev.Ctx) (runs int, reports int, msg string) {
	for _, m := range []string{"insertion", "deletion"} {
		ps, err := getSystem(m, c13D, c13B, 0)
		if err != nil {
			return 0, 0, "setup failed"
		}
		f, err := os.Create(filepath.Join(scratchDir(), "race-"+m+".ps"))
		if err != nil {
			return 0, 0, err.Error()
		}
		ps.WriteRawTo(f)
		f.Close()
	}
	bin := filepath.Join(scratchDir(), "racepass")
	harness := filepath.Join(ev.VerifDir, "harness")
	args := []string{"build", "-C", harness, "-race", "-o", bin}
	if mf := os.Getenv("VERIF_MODFILE"); mf != "" {
		args = append(args, "-modfile="+mf)
	}
	args = append(args, "./cmd/racepass")
	cmd := exec.Command("go", args...)
	cmd.Env = append(os.Environ(), "GOFLAGS=-mod=mod")
	if out, err := cmd.CombinedOutput(); err != nil {
		return 0, 0, "race build failed (pass skipped): " + tailStr(out)
	}
	var so, se bytes.Buffer
	run := exec.Command(bin, scratchDir())
	run.Stdout, run.Stderr = &so, &se
	run.Env = append(os.Environ(), "GORACE=halt_on_error=0")
	err := run.Run()
	fmt.Sscan(strings.TrimSpace(so.String()), &runs)
	text := se.String()
	for _, blk := range strings.Split(text, "WARNING: DATA RACE")[1:] {
		if strings.Contains(blk, "worldcoin/gnark-mbu") {
			reports++
			if msg == "" {
				if len(blk) > 1500 {
					blk = blk[:1500]
				}
				msg = blk
			}
		}
	}
	if err != nil && reports == 0 && !strings.Contains(text, "DATA RACE") {
		return runs, 0, "race pass program failed (not judged): " + tailStr(se.Bytes())
	}
	return runs, reports, msg
}

// sutThread: a thread of the code under check (a connection's handler, anything it spawned, a goroutine
// the packages start from init()), as opposed to the harness's clients and scrapers.
func sutThread(name string) bool {
	return strings.HasPrefix(name, "conn-") || strings.HasPrefix(name, "daemon")
}

func c13Workers() int {
	if vsched.HasSharedState() {
		return 1
	}
	if w := workers(); w < 6 {
		return w
	}
	return 6
}
