package checks

import (
	"encoding/json"
	"fmt"
	"math/big"
	"time"

	"verif/harness/ev"
	"verif/harness/gad"
	"verif/harness/r1csmc"
	"verif/harness/ref"
)

type c02Case struct {
	Kind  string            `json:"kind"` // tiny-round | tiny-proof | full-small | gadget-bn | full-bn
	Depth int               `json:"depth,omitempty"`
	Batch int               `json:"batch,omitempty"`
	Vals  map[string]uint64 `json:"vals,omitempty"`
	P     int64             `json:"p,omitempty"`
	B     *delBatch         `json:"batch_params,omitempty"`
	Dev   int               `json:"dev,omitempty"`
}

func init() {
	Registry["C02"] = func() {
		ev.Main("C02", "model_checking", 240*time.Second, 40*time.Minute, c02Body, func(c *ev.Ctx, raw json.RawMessage) {
			var cs c02Case
			if err := json.Unmarshal(raw, &cs); err != nil {
				c.HarnessError("%v", err)
			}
			got, want, err := c02Eval(&cs, nil, nil)
			if err != nil {
				c.HarnessError("%v", err)
			}
			fmt.Printf("replay: got=%s want=%s\n", got, want)
			if got != want {
				c.Violation("replay", fmt.Sprintf("got %s, want %s", got, want), cs)
			}
		})
	}
}

func tinyDelRound(d int) (*r1csmc.Sys[uint64, r1csmc.Small], error) {
	k := fmt.Sprintf("delround-%d", d)
	if v, ok := tinySysCache.Load(k); ok {
		return v.(*r1csmc.Sys[uint64, r1csmc.Small]), nil
	}
	s, err := r1csmc.CompileTiny(&gad.DelRound{Proof: gad.Vars(d), Depth: d})
	if err == nil {
		tinySysCache.Store(k, s)
	}
	return s, err
}

func tinyDelProof(d, b int) (*r1csmc.Sys[uint64, r1csmc.Small], error) {
	k := fmt.Sprintf("delproof-%d-%d", d, b)
	if v, ok := tinySysCache.Load(k); ok {
		return v.(*r1csmc.Sys[uint64, r1csmc.Small]), nil
	}
	s, err := r1csmc.CompileTiny(&gad.DelProof{Indices: gad.Vars(b), IdComms: gad.Vars(b), Proofs: gad.Vars2(b, d), Depth: d, Batch: b})
	if err == nil {
		tinySysCache.Store(k, s)
	}
	return s, err
}

func c02Want(f *ref.Field, b *delBatch) string {
	h, ok := b.refHash(f)
	if !ok || f.Mod(h).Cmp(f.Mod(bigs(b.Hash))) != 0 {
		return "reject"
	}
	if ok, _ := f.Deletion(b.Depth, bigs(b.Pre), ints(b.Idx), ints(b.Items), ints2(b.Proofs), bigs(b.Post)); ok {
		return "accept"
	}
	return "reject"
}

func c02Eval(cs *c02Case, ts *tinyStats, bs *bnStats) (got, want string, err error) {
	switch cs.Kind {
	case "tiny-round":
		sys, err := tinyDelRound(cs.Depth)
		if err != nil {
			return "", "", err
		}
		outs, err := tinyRun(sys, cs.Vals, "Out", ts)
		if err != nil {
			return "", "", err
		}
		proof := make([]*big.Int, cs.Depth)
		for i := range proof {
			proof[i] = u(cs.Vals[fmt.Sprintf("Proof_%d", i)])
		}
		_, run := f47.Deletion(cs.Depth, u(cs.Vals["Root"]), []*big.Int{u(cs.Vals["Index"])}, []*big.Int{u(cs.Vals["Item"])}, [][]*big.Int{proof}, nil)
		want = "[]"
		if run != nil {
			want = fmt.Sprintf("[%d]", run.Uint64())
		}
		return fmt.Sprint(outs), want, nil
	case "tiny-proof":
		sys, err := tinyDelProof(cs.Depth, cs.Batch)
		if err != nil {
			return "", "", err
		}
		outs, err := tinyRun(sys, cs.Vals, "Out", ts)
		if err != nil {
			return "", "", err
		}
		var idx, items []*big.Int
		var paths [][]*big.Int
		for i := 0; i < cs.Batch; i++ {
			idx = append(idx, u(cs.Vals[fmt.Sprintf("Indices_%d", i)]))
			items = append(items, u(cs.Vals[fmt.Sprintf("IdComms_%d", i)]))
			p := make([]*big.Int, cs.Depth)
			for j := range p {
				p[j] = u(cs.Vals[fmt.Sprintf("Proofs_%d_%d", i, j)])
			}
			paths = append(paths, p)
		}
		_, run := f47.Deletion(cs.Depth, u(cs.Vals["Pre"]), idx, items, paths, nil)
		want = "[]"
		if run != nil {
			want = fmt.Sprintf("[%d]", run.Uint64())
		}
		return fmt.Sprint(outs), want, nil
	case "full-small", "full-engine-bn":
		f := ref.BN
		if cs.Kind == "full-small" {
			f = fieldFor(fmt.Sprint(cs.P))
		}
		shape, asg := cs.B.reduced(f).circuits()
		got = "reject"
		if gad.Solved(shape, asg, f.P) == nil {
			got = "accept"
		}
		return got, c02Want(f, cs.B), nil
	case "gadget-bn":
		b := cs.B
		n := len(b.Idx)
		shape := &gad.DelProof{Indices: gad.Vars(n), IdComms: gad.Vars(n), Proofs: gad.Vars2(n, b.Depth), Depth: b.Depth, Batch: n}
		asg := &gad.DelProof{Pre: bigs(b.Pre), Out: bigs(b.Post), Indices: fv(ints(b.Idx)), IdComms: fv(ints(b.Items)), Proofs: fv2(ints2(b.Proofs))}
		got = "reject"
		if gad.Solved(shape, asg, ref.R) == nil {
			got = "accept"
		}
		ok, _ := ref.BN.Deletion(b.Depth, bigs(b.Pre), ints(b.Idx), ints(b.Items), ints2(b.Proofs), bigs(b.Post))
		want = "reject"
		if ok {
			want = "accept"
		}
		return got, want, nil
	case "full-bn":
		sys, _, err := bnDeletionSys(cs.B.Depth, len(cs.B.Idx))
		if err != nil {
			return "", "", err
		}
		_, asg := cs.B.circuits()
		hon, adv, err := bnSolve(sys, asg, cs.Dev, []int{0, 1, 30}, bs)
		if err != nil {
			return "", "", err
		}
		want = c02Want(ref.BN, cs.B)
		got = "reject"
		if hon > 0 {
			got = "accept"
		}
		if want == "reject" && adv > 0 {
			got = fmt.Sprintf("accept-with-forged-hints(%d)", adv)
		}
		return got, want, nil
	}
	return "", "", fmt.Errorf("unknown case kind %q", cs.Kind)
}

func c02Body(c *ev.Ctx) {
	r := &caseRunner{c: c, outcomes: map[string]int64{}}
	quick := c.Quick()
	sub := []uint64{0, 1, 2, 5, 23, 46}
	{
		var cases []c02Case
		for root := uint64(0); root < 47; root++ {
			for idx := uint64(0); idx < 47; idx++ {
				for item := uint64(0); item < 47; item++ {
					if quick && item > 5 && item != 46 && item != 23 {
						continue
					}
					for p0 := uint64(0); p0 < 47; p0++ {
						cases = append(cases, c02Case{Kind: "tiny-round", Depth: 1, Vals: map[string]uint64{"Root": root, "Index": idx, "Item": item, "Proof_0": p0}})
					}
				}
			}
		}
		runCases(r, "F47 DeletionRound d=1 (all hint values incl. is-zero inverse)", cases, c02Eval)
		cases = nil
		for root := uint64(0); root < 47; root++ {
			for idx := uint64(0); idx < 47; idx++ {
				for _, item := range sub {
					if quick && item > 1 {
						continue
					}
					for p0 := uint64(0); p0 < 47; p0++ {
						for _, p1 := range sub {
							if quick && p1 > 2 {
								continue
							}
							cases = append(cases, c02Case{Kind: "tiny-round", Depth: 2, Vals: map[string]uint64{"Root": root, "Index": idx, "Item": item, "Proof_0": p0, "Proof_1": p1}})
						}
					}
				}
			}
		}
		runCases(r, "F47 DeletionRound d=2", cases, c02Eval)
		cases = nil
		idxA := []uint64{0, 1, 2, 3, 4, 5, 46}
		prf := []uint64{0, 1, 2, 23}
		for pre := uint64(0); pre < 47; pre++ {
			for _, i0 := range idxA {
				for _, i1 := range idxA {
					for _, c0 := range sub {
						for _, c1 := range sub {
							if quick && (c0 > 2 || c1 > 5) {
								continue
							}
							for _, p0 := range prf {
								for _, p1 := range prf {
									cases = append(cases, c02Case{Kind: "tiny-proof", Depth: 1, Batch: 2, Vals: map[string]uint64{"Pre": pre, "Indices_0": i0, "Indices_1": i1, "IdComms_0": c0, "IdComms_1": c1, "Proofs_0_0": p0, "Proofs_1_0": p1}})
								}
							}
						}
					}
				}
			}
		}
		runCases(r, "F47 DeletionProof d=1 b=2", cases, c02Eval)
	}
	primes := []int64{5}
	if !quick {
		primes = append(primes, 11)
	}
	for _, p := range primes {
		f := ref.NewField(big.NewInt(p))
		var cases []c02Case
		for ix := int64(0); ix < p; ix++ {
			for pre := int64(0); pre < p; pre++ {
				for post := int64(0); post < p; post++ {
					for cm := int64(0); cm < p; cm++ {
						if (p > 5 || quick) && cm > 1 {
							continue
						}
						for p0 := int64(0); p0 < p; p0++ {
							if p > 5 && p0 > 3 {
								continue
							}
							b := delBatch{Depth: 1, Idx: []string{fmt.Sprint(ix)}, Pre: fmt.Sprint(pre), Post: fmt.Sprint(post), Items: []string{fmt.Sprint(cm)}, Proofs: [][]string{{fmt.Sprint(p0)}}}
							h, _ := b.refHash(f)
							for _, dh := range []int64{0, 1} {
								bb := b
								bb.Hash = f.Mod(new(big.Int).Add(h, big.NewInt(dh))).String()
								cases = append(cases, c02Case{Kind: "full-small", P: p, B: &bb})
							}
						}
					}
				}
			}
		}
		runCases(r, fmt.Sprintf("F%d full DeletionMbuCircuit d=1 b=1", p), cases, c02Eval)
	}
	// every depth x batch-size set, defects in the last slot / top level
	c02DimSweep(r, quick)
	for _, d := range []int{1, 2} {
		runCases(r, fmt.Sprintf("BN254 DeletionProof gadget, all states d=%d x menu", d), c02Menu(d, quick), c02Eval)
	}
	if !quick {
		runCases(r, "BN254 DeletionProof gadget, d=3 (first 200 leaf vectors)", c02Menu(3, false), c02Eval)
	}
	{
		var cases []c02Case
		for _, d := range []int{16, 30, 31} {
			size := ref.Pow2(d)
			sp := ref.NewSparse(ref.BN, d)
			last := new(big.Int).Sub(size, ref.B(1)).Uint64()
			sp.Set(0, ref.B(9))
			sp.Set(last, ref.B(11))
			idxs := []*big.Int{ref.B(0), ref.B(1), new(big.Int).Sub(size, ref.B(1)), size, new(big.Int).Add(size, ref.B(1)), new(big.Int).Sub(ref.Pow2(d+1), ref.B(1)), ref.Pow2(d + 1), new(big.Int).Sub(ref.Pow2(32), ref.B(1)), ref.Pow2(32), new(big.Int).Sub(ref.R, ref.B(1))}
			for _, i0 := range idxs {
				for _, i1 := range idxs[:6] {
					cur := ref.NewSparse(ref.BN, d)
					cur.Set(0, ref.B(9))
					cur.Set(last, ref.B(11))
					b := delBatch{Depth: d, Pre: sp.Root().String()}
					for _, ix := range []*big.Int{i0, i1} {
						pos := new(big.Int).Mod(ix, size).Uint64()
						item := new(big.Int)
						if v, ok := cur.Leaves[pos]; ok {
							item = v
						}
						b.Idx = append(b.Idx, ix.String())
						b.Items = append(b.Items, item.String())
						b.Proofs = append(b.Proofs, strs(cur.Proof(pos)))
						if new(big.Int).Mod(ix, ref.Pow2(d+1)).Cmp(size) < 0 {
							cur.Set(pos, ref.B(0))
						}
					}
					b.Post = cur.Root().String()
					cases = append(cases, c02Case{Kind: "gadget-bn", B: &b})
				}
			}
		}
		runCases(r, "BN254 DeletionProof gadget, boundary depths 16/30/31 x index alphabet", cases, c02Eval)
	}
	{
		var cases []c02Case
		dims := [][2]int{{2, 2}}
		if !quick {
			dims = append(dims, [2]int{1, 1}, [2]int{3, 2}, [2]int{2, 3})
		}
		for _, dm := range dims {
			cases = append(cases, c02FullCases(dm[0], dm[1], quick)...)
		}
		runCases(r, "BN254 compiled DeletionMbuCircuit, hint adversary bound 1", cases, c02Eval)
	}
	// the same entry point after other dimensions were compiled in this process: (1,12) then (11,2)
	{
		bnDeletionSys(1, 12)
		hc := c02FullCases(11, 2, true)
		if len(hc) > 5 {
			hc = hc[:5]
		}
		for i := range hc {
			hc[i].Dev = 0
		}
		runCases(r, "BN254 compiled DeletionMbuCircuit (11,2) after (1,12) was compiled in the same process", hc, c02Eval)
	}
	runPairIsolation(c, c02Pairs())
	r.finish("C02")
	c.Set("rule", "cases = inputs of the circuit/gadget (complete over F_47/F_5, all leaf-vector states x operation menu on BN254); non-trivial = reference relation holds; every case decided by the implementation (R1CS search with all hint values incl. the is-zero inverse / gnark engine) and by the reference relation")
	c.Assume("BN254 values range over the alphabets {0,1,r-1} (+ boundary indices); whole-field exhaustiveness is over F_5 and F_47")
}

func c02Menu(d int, quick bool) []c02Case {
	rm1 := new(big.Int).Sub(ref.R, ref.B(1))
	alpha := []*big.Int{ref.B(0), ref.B(1), rm1}
	n := 1 << uint(d)
	nStates := 1
	for i := 0; i < n; i++ {
		nStates *= 3
	}
	if nStates > 200 {
		nStates = 200
	}
	size := ref.Pow2(d)
	size2 := ref.Pow2(d + 1)
	ixRaw := []*big.Int{ref.B(0), ref.B(1), new(big.Int).Sub(size, ref.B(2)), new(big.Int).Sub(size, ref.B(1)), size, new(big.Int).Add(size, ref.B(1)), new(big.Int).Sub(size2, ref.B(1)), size2, new(big.Int).Add(size2, ref.B(1)), new(big.Int).Sub(ref.Pow2(32), ref.B(1)), rm1}
	seen := map[string]bool{}
	var ix []*big.Int
	for _, v := range ixRaw {
		if v.Sign() >= 0 && !seen[v.String()] {
			seen[v.String()] = true
			ix = append(ix, v)
		}
	}
	ix2 := ix
	if quick {
		ix2 = []*big.Int{ref.B(0), ref.B(1), new(big.Int).Sub(size, ref.B(1)), size, new(big.Int).Sub(size2, ref.B(1)), size2}
		if d == 1 {
			ix2 = ix2[1:]
		}
	}
	garbage := new(big.Int).Sub(ref.R, ref.B(2))
	var cases []c02Case
	for s := 0; s < nStates; s++ {
		t := ref.NewTree(ref.BN, d)
		x := s
		for i := 0; i < n; i++ {
			t.Set(i, alpha[x%3])
			x /= 3
		}
		parent := t.Clone()
		for i := n - 1; i >= 0; i-- {
			if parent.Leaves[i].Sign() != 0 {
				parent.Set(i, ref.B(0))
				break
			}
		}
		pre := t.Root()
		for _, bsz := range []int{1, 2} {
			al := ix
			if bsz == 2 {
				al = ix2
			}
			nIdx := len(al)
			if bsz == 2 {
				nIdx = len(al) * len(al)
			}
			for iv := 0; iv < nIdx; iv++ {
				idx := []*big.Int{al[iv%len(al)]}
				if bsz == 2 {
					idx = append(idx, al[iv/len(al)])
				}
				// variant -1: everything genuine; else slot*8+kind
				for variant := -1; variant < bsz*8; variant++ {
					slot, kind := -1, -1
					if variant >= 0 {
						slot, kind = variant/8, variant%8
					}
					cur := t.Clone()
					b := delBatch{Depth: d, Pre: pre.String()}
					run := new(big.Int).Set(pre)
					skipVariant := false
					for i := 0; i < bsz; i++ {
						pos := int(new(big.Int).Mod(idx[i], size).Int64())
						padding := new(big.Int).Mod(idx[i], size2).Cmp(size) >= 0
						item := new(big.Int).Set(cur.Leaves[pos])
						path := cur.Proof(pos)
						if padding {
							// padding slot contents: zeros by default
							item = new(big.Int)
							for j := range path {
								path[j] = new(big.Int)
							}
						}
						if i == slot {
							switch kind {
							case 0:
								path = parent.Proof(pos)
							case 1:
								path[0] = ref.BN.Mod(new(big.Int).Add(path[0], ref.B(1)))
							case 2:
								path[len(path)-1] = ref.BN.Mod(new(big.Int).Add(path[len(path)-1], ref.B(1)))
							case 3:
								path = t.Proof(pos ^ 1)
							case 4:
								item = new(big.Int)
							case 5:
								item = ref.BN.Mod(new(big.Int).Add(item, ref.B(1)))
							case 6: // stale presentation: value and path of the pre-batch tree
								item = new(big.Int).Set(t.Leaves[pos])
								path = t.Proof(pos)
							case 7: // garbage in the slot (meaningful for padding slots: must be a no-op)
								item = garbage
								for j := range path {
									path[j] = garbage
								}
							}
						}
						b.Idx = append(b.Idx, idx[i].String())
						b.Items = append(b.Items, item.String())
						b.Proofs = append(b.Proofs, strs(path))
						if !padding {
							run = ref.BN.Path(new(big.Int), path, uint64(pos)) // chain ignoring the membership check
							cur.Set(pos, ref.B(0))
						}
					}
					if skipVariant {
						continue
					}
					for pv := 0; pv < 3; pv++ {
						bb := b
						switch pv {
						case 0:
							bb.Post = run.String()
						case 1:
							if variant >= 0 {
								continue
							}
							bb.Post = pre.String()
						case 2:
							if variant >= 0 {
								continue
							}
							bb.Post = ref.BN.Mod(new(big.Int).Add(run, ref.B(1))).String()
						}
						cases = append(cases, c02Case{Kind: "gadget-bn", B: &bb})
					}
				}
			}
		}
	}
	return cases
}

func c02FullCases(d, bsz int, quick bool) []c02Case {
	var cases []c02Case
	n := 1 << uint(d)
	rm1 := new(big.Int).Sub(ref.R, ref.B(1))
	full := ref.NewTree(ref.BN, d)
	for i := 0; i < n; i++ {
		full.Set(i, []*big.Int{ref.B(1), rm1, ref.B(7)}[i%3])
	}
	mk := func(t *ref.Tree, idx []int64) delBatch {
		cur := t.Clone()
		b := delBatch{Depth: d, Pre: t.Root().String()}
		for _, ix := range idx {
			pos := int(ix) % n
			b.Idx = append(b.Idx, fmt.Sprint(ix))
			if ix >= int64(n) && ix < int64(2*n) {
				b.Items = append(b.Items, "0")
				b.Proofs = append(b.Proofs, strs(make0(d)))
				continue
			}
			b.Items = append(b.Items, cur.Leaves[pos].String())
			b.Proofs = append(b.Proofs, strs(cur.Proof(pos)))
			cur.Set(pos, ref.B(0))
		}
		b.Post = cur.Root().String()
		h, _ := b.refHash(ref.BN)
		b.Hash = h.String()
		return b
	}
	seq := func(f func(i int) int64) []int64 {
		out := make([]int64, bsz)
		for i := range out {
			out[i] = f(i)
		}
		return out
	}
	bases := []delBatch{
		mk(full, seq(func(i int) int64 { return int64(i % n) })),                    // distinct (or wrapping duplicates when b>n)
		mk(full, seq(func(i int) int64 { return int64(n - 1) })),                    // duplicated index: second sees the updated tree
		mk(full, seq(func(i int) int64 { return int64(n + i%n) })),                  // all padding
		mk(full, seq(func(i int) int64 { return []int64{0, int64(2*n - 1)}[i%2] })), // mixed
		mk(full, seq(func(i int) int64 { return []int64{int64(2 * n), 0}[i%2] })),   // index one bit too high -> invalid
	}
	for bi, base := range bases {
		add := func(b delBatch) { cases = append(cases, c02Case{Kind: "full-bn", B: &b, Dev: 1}) }
		add(base)
		if quick && bi > 2 {
			continue
		}
		inc := func(s string) string { return ref.BN.Mod(new(big.Int).Add(bigs(s), ref.B(1))).String() }
		p := base
		p.Hash = inc(base.Hash)
		add(p)
		p = base
		p.Pre = inc(base.Pre)
		add(p)
		p = base
		p.Post = inc(base.Post)
		add(p)
		for i := range base.Idx {
			p = base
			p.Idx = append([]string{}, base.Idx...)
			p.Idx[i] = inc(base.Idx[i])
			add(p)
			p = base
			p.Items = append([]string{}, base.Items...)
			p.Items[i] = inc(base.Items[i])
			add(p)
			for j := range base.Proofs[i] {
				p = base
				p.Proofs = make([][]string, len(base.Proofs))
				for k := range p.Proofs {
					p.Proofs[k] = append([]string{}, base.Proofs[k]...)
				}
				p.Proofs[i][j] = inc(base.Proofs[i][j])
				add(p)
			}
		}
		p = base
		p.Post = inc(base.Post)
		h, _ := p.refHash(ref.BN)
		p.Hash = h.String()
		add(p)
	}
	return cases
}

func make0(n int) []*big.Int {
	out := make([]*big.Int, n)
	for i := range out {
		out[i] = new(big.Int)
	}
	return out
}
