package checks

import (
	"bytes"
	"crypto/sha256"
	"encoding/hex"
	"encoding/json"
	"fmt"
	"os"
	"os/exec"
	"path/filepath"
	"reflect"
	"strings"
	"sync"
	"time"

	"github.com/consensys/gnark-crypto/ecc"
	"github.com/consensys/gnark/backend/groth16"
	"github.com/consensys/gnark/constraint"
	"github.com/consensys/gnark/frontend"
	"github.com/consensys/gnark/frontend/cs/r1cs"
	"verif/harness/ev"
	"verif/harness/par"
	"worldcoin/gnark-mbu/prover"
)

type mapRun struct {
	What  string   `json:"what"`
	Mode  string   `json:"mode"`
	D     int      `json:"d"`
	B     int      `json:"b"`
	Seed  int      `json:"seed"` // -1: runtime's own randomness
	Procs int      `json:"gomaxprocs"`
	Extra []string `json:"extra,omitempty"`
}

type mapOut struct {
	Digests       []string `json:"digests"`
	Error         string   `json:"error"`
	Public        int      `json:"public"`
	Constraints   int      `json:"constraints"`
	MapIterations uint64   `json:"map_iterations"`
	MapMaxB       int      `json:"map_max_B"`
	SeedOn        bool     `json:"seed_on"`
	DepthField    *uint32  `json:"depth_field"`
	BatchField    *uint32  `json:"batch_field"`
}

func mapChildPath() string { return filepath.Join(ev.VerifDir, ".bin", "mapchild") }

func runMapChild(r *mapRun) (*mapOut, error) {
	args := append([]string{r.What, r.Mode, fmt.Sprint(r.D), fmt.Sprint(r.B)}, r.Extra...)
	cmd := exec.Command(mapChildPath(), args...)
	cmd.Env = append(os.Environ(), fmt.Sprintf("GOMAXPROCS=%d", r.Procs))
	if r.Seed >= 0 {
		cmd.Env = append(cmd.Env, fmt.Sprintf("VERIF_MAPSEED=%d", r.Seed))
	}
	var so, se bytes.Buffer
	cmd.Stdout, cmd.Stderr = &so, &se
	if err := cmd.Run(); err != nil {
		return nil, fmt.Errorf("mapchild %v: %v\n%s", args, err, tailStr(se.Bytes()))
	}
	lines := strings.Split(strings.TrimSpace(so.String()), "\n")
	var out mapOut
	if err := json.Unmarshal([]byte(lines[len(lines)-1]), &out); err != nil {
		return nil, fmt.Errorf("mapchild output: %v: %s", err, so.String())
	}
	if r.Seed >= 0 && !out.SeedOn {
		return nil, fmt.Errorf("mapchild did not pick up VERIF_MAPSEED (patched runtime not in effect)")
	}
	return &out, nil
}

func mapSeeds(quick bool) []int {
	var s []int
	n := 64
	if quick {
		n = 16
	}
	for i := 0; i < n; i++ {
		s = append(s, i)
	}
	spread := []int{127, 255, 333, 511, 640, 777, 900, 1023}
	if !quick {
		for i := 0; i < 32; i++ {
			spread = append(spread, 64+i*31)
		}
	}
	return append(s, spread...)
}

func init() {
	Registry["C12"] = func() {
		ev.Main("C12", "exploration", 240*time.Second, 40*time.Minute, c12Body, func(c *ev.Ctx, raw json.RawMessage) {
			var r mapRun
			if err := json.Unmarshal(raw, &r); err != nil {
				c.HarnessError("%v", err)
			}
			out, err := runMapChild(&r)
			if err != nil {
				c.HarnessError("%v", err)
			}
			fmt.Printf("replay: %+v\n", out)
		})
	}
}

func c12Body(c *ev.Ctx) {
	quick := c.Quick()
	if _, err := os.Stat(mapChildPath()); err != nil {
		c.HarnessError("mapchild (patched-runtime build) missing: %v", err)
	}
	// dummy keys for the import path (it compiles first and does not cross-check the keys)
	dccs, err := frontend.Compile(ecc.BN254.ScalarField(), r1cs.NewBuilder, &dummyCircuit{})
	if err != nil {
		c.HarnessError("%v", err)
	}
	dpk, dvk, err := groth16.Setup(dccs)
	if err != nil {
		c.HarnessError("%v", err)
	}
	pkPath, vkPath := filepath.Join(scratchDir(), "dummy.pk"), filepath.Join(scratchDir(), "dummy.vk")
	{
		f, _ := os.Create(pkPath)
		dpk.WriteTo(f)
		f.Close()
		f, _ = os.Create(vkPath)
		dvk.WriteTo(f)
		f.Close()
	}
	dims := [][2]int{{3, 2}} // depth != batch, so a path that confuses the two builds a visibly different circuit
	if !quick {
		dims = [][2]int{{1, 1}, {2, 2}, {3, 2}, {2, 3}, {31, 1}}
	}
	seeds := mapSeeds(quick)
	var runs []mapRun
	for _, dm := range dims {
		for _, mode := range []string{"insertion", "deletion"} {
			for si, s := range seeds {
				procs := []int{1, 2, 16}[si%3]
				runs = append(runs, mapRun{What: "build", Mode: mode, D: dm[0], B: dm[1], Seed: s, Procs: procs})
				if si%2 == 0 || !quick {
					runs = append(runs, mapRun{What: "import", Mode: mode, D: dm[0], B: dm[1], Seed: s, Procs: []int{16, 1, 2}[si%3], Extra: []string{pkPath, vkPath}})
				}
			}
			for _, p := range []int{1, 2, 16} {
				runs = append(runs, mapRun{What: "build", Mode: mode, D: dm[0], B: dm[1], Seed: -1, Procs: p})
			}
			runs = append(runs, mapRun{What: "build3", Mode: mode, D: dm[0], B: dm[1], Seed: 3, Procs: 16})
			nsetup := 2
			if !quick && dm[0] <= 3 {
				nsetup = 4
			}
			if dm[0] > 3 && quick {
				nsetup = 0
			}
			for i := 0; i < nsetup; i++ {
				runs = append(runs, mapRun{What: "setup", Mode: mode, D: dm[0], B: dm[1], Seed: []int{1, 6, 11, 333}[i], Procs: []int{16, 2, 1, 16}[i]})
			}
		}
	}
	type res struct {
		out *mapOut
		err error
	}
	results := make([]res, len(runs))
	done := par.For(len(runs), func(i int) {
		o, e := runMapChild(&runs[i])
		results[i] = res{o, e}
	}, func() bool { return c.Expired() })
	if done < len(runs) {
		c.Cap(fmt.Sprintf("%d of %d compilations", done, len(runs)))
	}
	digests := map[string]map[string][]int{} // (mode,dims) -> digest -> run indices
	var maxB int
	var iters uint64
	paths := map[string]bool{}
	for i, r := range results {
		if r.out == nil && r.err == nil {
			continue
		}
		if r.err != nil {
			c.HarnessError("%v", r.err)
		}
		k := fmt.Sprintf("%s d=%d b=%d", runs[i].Mode, runs[i].D, runs[i].B)
		if r.out.Error != "" {
			c.Violation("compile-error|"+k+"|"+runs[i].What, fmt.Sprintf("%s path fails: %s", runs[i].What, r.out.Error), runs[i])
			continue
		}
		if digests[k] == nil {
			digests[k] = map[string][]int{}
		}
		for _, d := range r.out.Digests {
			digests[k][d] = append(digests[k][d], i)
		}
		paths[runs[i].What] = true
		if r.out.MapMaxB > maxB {
			maxB = r.out.MapMaxB
		}
		iters += r.out.MapIterations
		if r.out.Public != 2 {
			c.Violation("public-inputs|"+k+"|"+runs[i].What, fmt.Sprintf("compiled system has %d public wires (incl. the constant ONE); expected exactly one public input", r.out.Public), runs[i])
		}
		if runs[i].What == "import" && (r.out.DepthField == nil || int(*r.out.DepthField) != runs[i].D || int(*r.out.BatchField) != runs[i].B) {
			c.Violation("import-dims|"+k, "imported system records wrong depth/batch", runs[i])
		}
	}
	// CLI r1cs export (ordinary runtime, separate process)
	for _, dm := range dims {
		if dm[0] > 3 && quick {
			continue
		}
		for _, mode := range []string{"insertion", "deletion"} {
			outp := filepath.Join(scratchDir(), fmt.Sprintf("r1cs-%s-%d-%d.bin", mode, dm[0], dm[1]))
			res, err := runCLI(nil, 10*time.Minute, "r1cs", "--mode", mode, "--output", outp, "--tree-depth", fmt.Sprint(dm[0]), "--batch-size", fmt.Sprint(dm[1]))
			if err != nil {
				c.HarnessError("%v", err)
			}
			k := fmt.Sprintf("%s d=%d b=%d", mode, dm[0], dm[1])
			if res.Exit != 0 {
				c.Violation("cli-r1cs|"+k, "r1cs command failed: "+tailStr(res.Stderr), nil)
				continue
			}
			data, _ := os.ReadFile(outp)
			os.Remove(outp)
			sum := sha256.Sum256(data)
			if digests[k] == nil {
				digests[k] = map[string][]int{}
			}
			digests[k][hex.EncodeToString(sum[:])] = append(digests[k][hex.EncodeToString(sum[:])], -1)
			paths["cli-r1cs"] = true
		}
	}
	for k, m := range digests {
		if len(m) > 1 {
			var desc []string
			var rep any
			for d, idx := range m {
				what := "cli r1cs"
				if idx[0] >= 0 {
					what = fmt.Sprintf("%s seed=%d procs=%d", runs[idx[0]].What, runs[idx[0]].Seed, runs[idx[0]].Procs)
					rep = runs[idx[0]]
				}
				desc = append(desc, fmt.Sprintf("%s.. (%d runs, e.g. %s)", d[:12], len(idx), what))
			}
			c.Violation("nondeterministic|"+k, fmt.Sprintf("%d different constraint systems for %s: %s", len(m), k, strings.Join(desc, "; ")), rep)
		}
	}
	// histories: several dimensions compiled one after the other in one process must each give
	// what a fresh process gives (dimension pairs whose decimal digits concatenate alike included)
	{
		// (digits that concatenate alike; deeper then shallower; larger batch then smaller; repeats)
		seq := [][2]int{{1, 12}, {11, 2}, {2, 1}, {1, 2}, {12, 1}, {1, 12}, {3, 2}, {2, 3}, {3, 2}}
		if !quick {
			seq = append(seq, [2]int{21, 1}, [2]int{2, 11}, [2]int{1, 1}, [2]int{11, 1}, [2]int{31, 1}, [2]int{4, 4}, [2]int{3, 5})
		}
		var arg []string
		for _, dm := range seq {
			arg = append(arg, fmt.Sprintf("%d,%d", dm[0], dm[1]))
		}
		for _, mode := range []string{"insertion", "deletion"} {
			var harg []string
			for _, a := range arg {
				harg = append(harg, "build:"+mode+":"+a)
			}
			so, err := runMapChild(&mapRun{What: "hist", Mode: mode, D: 0, B: 0, Seed: 2, Procs: 16, Extra: []string{strings.Join(harg, ";")}})
			if err != nil {
				c.HarnessError("%v", err)
			}
			fresh := map[[2]int]string{}
			var fmu sync.Mutex
			var uniq [][2]int
			for _, dm := range seq {
				if _, ok := fresh[dm]; !ok {
					fresh[dm] = ""
					uniq = append(uniq, dm)
				}
			}
			par.For(len(uniq), func(i int) {
				o, err := runMapChild(&mapRun{What: "build", Mode: mode, D: uniq[i][0], B: uniq[i][1], Seed: 2, Procs: 16})
				if err != nil {
					c.HarnessError("%v", err)
				}
				fmu.Lock()
				if o.Error != "" {
					fresh[uniq[i]] = "error: " + o.Error
				} else {
					fresh[uniq[i]] = o.Digests[0]
				}
				fmu.Unlock()
			}, nil)
			for i, dm := range seq {
				if i < len(so.Digests) && so.Digests[i] != fresh[dm] {
					c.Violation(fmt.Sprintf("history-dependent|%s d=%d b=%d", mode, dm[0], dm[1]), fmt.Sprintf("%s (%d,%d) compiled as step %d of the sequence %s in one process gives a different constraint system than in a fresh process", mode, dm[0], dm[1], i+1, strings.Join(arg, " ")), mapRun{What: "hist", Mode: mode, Seed: 2, Procs: 16, Extra: []string{strings.Join(harg, ";")}})
				}
			}
			done++
		}
	}
	// one public input: witness, verifying key, Solidity
	var wg sync.WaitGroup
	for _, mode := range []string{"insertion", "deletion"} {
		wg.Add(1)
		go func(mode string) {
			defer wg.Done()
			ps, err := getSystem(mode, 1, 1, 0)
			if err != nil {
				c.HarnessError("%v", err)
			}
			var asg frontend.Circuit
			if mode == "insertion" {
				asg = &prover.InsertionMbuCircuit{InputHash: 5, IdComms: make([]frontend.Variable, 1)}
			} else {
				asg = &prover.DeletionMbuCircuit{InputHash: 5, DeletionIndices: make([]frontend.Variable, 1)}
			}
			w, err := frontend.NewWitness(asg, ecc.BN254.ScalarField(), frontend.PublicOnly())
			if err != nil {
				c.Violation("public-witness|"+mode, "cannot build a public-only witness from the input hash alone: "+err.Error(), nil)
			} else if n := reflect.ValueOf(w.Vector()).Len(); n != 1 {
				c.Violation("public-witness|"+mode, fmt.Sprintf("public witness has %d elements", n), nil)
			}
			if np := ps.ConstraintSystem.GetNbPublicVariables(); np != 2 {
				c.Violation("public-inputs|"+mode+"|setup", fmt.Sprintf("%d public wires", np), nil)
			}
			vk := reflect.ValueOf(ps.VerifyingKey).Elem().FieldByName("G1").FieldByName("K")
			if !vk.IsValid() || vk.Len() != 2 {
				c.Violation("vk-K|"+mode, fmt.Sprintf("verifying key has %v public-input bases, expected 2 (ONE + input hash)", vk), nil)
			}
			var sol bytes.Buffer
			if err := ps.ExportSolidity(&sol); err != nil {
				c.Violation("solidity|"+mode, err.Error(), nil)
			} else if !strings.Contains(sol.String(), "uint256[1] calldata input") {
				c.Violation("solidity|"+mode, "exported Solidity verifier does not take exactly one public input (uint256[1])", nil)
			}
		}(mode)
	}
	wg.Wait()
	// deletion depth guard
	for _, d := range []uint32{32, 33, 64} {
		if cs, err := prover.BuildR1CSDeletion(d, 1); err == nil || cs != nil {
			c.Violation(fmt.Sprintf("depth-guard|BuildR1CSDeletion(%d)", d), fmt.Sprintf("deletion circuit of depth %d is not refused", d), nil)
		}
		if ps, err := prover.ImportDeletionSetup(d, 1, pkPath, vkPath); err == nil || ps != nil {
			c.Violation(fmt.Sprintf("depth-guard|ImportDeletionSetup(%d)", d), fmt.Sprintf("deletion import at depth %d is not refused", d), nil)
		}
	}
	if ps, err := prover.SetupDeletion(32, 1); err == nil || ps != nil {
		c.Violation("depth-guard|SetupDeletion(32)", "deletion setup at depth 32 is not refused", nil)
	}
	if o, err := runMapChild(&mapRun{What: "build", Mode: "deletion", D: 31, B: 1, Seed: 0, Procs: 16}); err != nil || o.Error != "" {
		c.Violation("depth-guard|31", fmt.Sprintf("deletion circuit of depth 31 must build: %v %v", err, o), nil)
	}
	var np []string
	for p := range paths {
		np = append(np, p)
	}
	runPairIsolation(c, c12Pairs())
	c.Set("evaluations", int64(done))
	c.Set("distinct_nontrivial", int64(len(seeds)*len(dims)*2))
	c.Set("map_seeds", int64(len(seeds)))
	c.Set("construction_paths", np)
	c.Set("map_iterations_observed", int64(iters))
	c.Set("largest_map_log2_buckets", int64(maxB))
	c.Set("distinct_digests_per_config", func() map[string]int {
		m := map[string]int{}
		for k, v := range digests {
			m[k] = len(v)
		}
		return m
	}())
	c.Set("exhaustive", done >= len(runs) && len(c.CapsHit()) == 0)
	c.Sample(runs[0])
	c.Sample(runs[len(runs)/2])
	c.Set("rule", "each evaluation = one compilation in a fresh process built with a patched runtime whose map-iteration start position is VERIF_MAPSEED; product of (mode, dims) x construction path {BuildR1CS*, Setup*, Import*Setup, CLI r1cs} x seed x GOMAXPROCS {1,2,16} (+ runtime's own randomness, + 3 repetitions in one process, + a sequence of different dimensions compiled in one process vs. fresh processes); oracle: one SHA-256 of ConstraintSystem.WriteTo per (mode, dims); one public input in system, witness, verifying key and Solidity; deletion depth >= 32 refused, 31 builds; distinct = (seed, mode, dims) combinations")
	c.Assume("map-iteration order is the only hidden nondeterminism of the goroutine-free compile path; seeds are uniform across iteration sites; maps larger than 8 buckets are covered for the listed spread of seeds only")
}

// c12Pairs: two builds overlapping in one process (two goroutines), different dimensions / different modes:
// each must produce the constraint system it produces alone.
func c12Pairs() []pairScenario {
	build := func(mode string, d, b uint32) string {
		var ccs constraint.ConstraintSystem
		var err error
		func() {
			defer func() {
				if r := recover(); r != nil {
					err = fmt.Errorf("panic: %v", r)
				}
			}()
			if mode == "insertion" {
				ccs, err = prover.BuildR1CSInsertion(d, b)
			} else {
				ccs, err = prover.BuildR1CSDeletion(d, b)
			}
		}()
		if err != nil {
			return "error: " + err.Error()
		}
		h := sha256.New()
		ccs.WriteTo(h)
		return fmt.Sprintf("%s(%d,%d): %d constraints, %d secret inputs, sha256 %s", mode, d, b, ccs.GetNbConstraints(), ccs.GetNbSecretVariables(), hex.EncodeToString(h.Sum(nil)))
	}
	return []pairScenario{
		{Name: "BuildR1CSInsertion(3,2) overlapping BuildR1CSInsertion(2,1)", MaxBound: 1, Parallel: true, F: func(i int) string {
			if i == 0 {
				return build("insertion", 3, 2)
			}
			return build("insertion", 2, 1)
		}},
		{Name: "BuildR1CSDeletion(2,3) overlapping BuildR1CSInsertion(2,2)", MaxBound: 1, Parallel: true, F: func(i int) string {
			if i == 0 {
				return build("deletion", 2, 3)
			}
			return build("insertion", 2, 2)
		}},
	}
}
