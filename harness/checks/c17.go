package checks

import (
	"bytes"
	"crypto/sha256"
	"encoding/hex"
	"encoding/json"
	"fmt"
	"os"
	"path/filepath"
	"regexp"
	"sort"
	"strings"
	"time"

	"verif/harness/ev"
	"verif/harness/par"
)

func init() {
	Registry["C17"] = func() {
		ev.Main("C17", "translation_validation", 240*time.Second, 40*time.Minute, c17Body, func(c *ev.Ctx, raw json.RawMessage) {
			var r mapRun
			if err := json.Unmarshal(raw, &r); err != nil {
				c.HarnessError("%v", err)
			}
			out, err := runMapChild(&r)
			if err != nil {
				c.HarnessError("%v", err)
			}
			fmt.Printf("replay: %+v\n", out)
		})
	}
}

// splitDefs splits a Lean model into its `def` blocks keyed by name (preamble under "").
func splitDefs(text string) (map[string]string, []string) {
	defs := map[string]string{}
	var order []string
	cur := ""
	var sb strings.Builder
	flush := func() {
		defs[cur] = sb.String()
		order = append(order, cur)
		sb.Reset()
	}
	for _, line := range strings.SplitAfter(text, "\n") {
		if strings.HasPrefix(line, "def ") {
			flush()
			f := strings.Fields(line)
			cur = strings.TrimSuffix(f[1], ":")
		}
		sb.WriteString(line)
	}
	flush()
	return defs, order
}

func c17Body(c *ev.Ctx) {
	quick := c.Quick()
	fvDir := filepath.Join(ev.RepoDir, "formal-verification")
	committedRaw, err := os.ReadFile(filepath.Join(fvDir, "FormalVerification.lean"))
	if err != nil {
		c.HarnessError("%v", err)
	}
	committed := string(committedRaw)
	cSum := sha256.Sum256(committedRaw)
	// dimensions the proofs are stated for
	common, _ := os.ReadFile(filepath.Join(fvDir, "FormalVerification", "Common.lean"))
	reD := regexp.MustCompile(`(?m)^abbrev D := (\d+)`).FindSubmatch(common)
	reB := regexp.MustCompile(`(?m)^abbrev B := (\d+)`).FindSubmatch(common)
	if reD == nil || reB == nil {
		c.HarnessError("cannot find D/B in Common.lean")
	}
	D, B := 0, 0
	fmt.Sscan(string(reD[1]), &D)
	fmt.Sscan(string(reB[1]), &B)
	if D != 30 || B != 4 {
		c.Violation("dims", fmt.Sprintf("Common.lean states the proofs for D=%d B=%d, the property is about depth 30 batch 4", D, B), nil)
	}
	seeds := mapSeeds(quick)
	var runs []mapRun
	first := filepath.Join(scratchDir(), "extracted-30-4.lean")
	for si, s := range seeds {
		r := mapRun{What: "lean", Mode: "-", D: D, B: B, Seed: s, Procs: []int{1, 16, 2}[si%3]}
		if si == 0 {
			r.Extra = []string{first}
		}
		runs = append(runs, r)
	}
	runs = append(runs, mapRun{What: "lean", Mode: "-", D: D, B: B, Seed: -1, Procs: 16}, mapRun{What: "lean", Mode: "-", D: D, B: B, Seed: -1, Procs: 1}, mapRun{What: "lean3", Mode: "-", D: D, B: B, Seed: 5, Procs: 16})
	nMain := len(runs)
	sweepD := []int{1, 2, 3, 30, 31}
	sweepB := []int{1, 2, 4}
	if quick {
		sweepD = []int{1, 2, 31}
		sweepB = []int{1, 3}
	}
	for _, d := range sweepD {
		for _, b := range sweepB {
			for _, s := range []int{0, 13} {
				runs = append(runs, mapRun{What: "lean", Mode: "-", D: d, B: b, Seed: s, Procs: 16})
			}
		}
	}
	outs := make([]*mapOut, len(runs))
	done := par.For(len(runs), func(i int) {
		o, e := runMapChild(&runs[i])
		if e != nil {
			c.HarnessError("%v", e)
		}
		outs[i] = o
	}, func() bool { return c.Expired() })
	if done < len(runs) {
		c.Cap(fmt.Sprintf("%d of %d extractions", done, len(runs)))
	}
	byCfg := map[string]map[string]int{}
	for i, o := range outs {
		if o == nil {
			continue
		}
		k := fmt.Sprintf("d=%d b=%d", runs[i].D, runs[i].B)
		if o.Error != "" {
			c.Violation("extract-error|"+k, "extraction fails: "+o.Error, runs[i])
			continue
		}
		if byCfg[k] == nil {
			byCfg[k] = map[string]int{}
		}
		for _, d := range o.Digests {
			byCfg[k][d]++
		}
	}
	for k, m := range byCfg {
		if len(m) > 1 {
			c.Violation("nondeterministic|"+k, fmt.Sprintf("extraction at %s produced %d different texts across seeds/processes", k, len(m)), nil)
		}
	}
	// in-process histories: extraction must be a function of (depth, batch) only, whatever was compiled or
	// extracted earlier in the same process (deeper, shallower, other batch sizes, the circuits themselves)
	{
		DB := fmt.Sprintf("%d,%d", D, B)
		hists := []string{
			"lean:-:" + fmt.Sprintf("%d,%d", D+1, B) + ";lean:-:" + DB,
			"lean:-:2,1;lean:-:" + DB + ";lean:-:" + DB,
			"lean:-:" + fmt.Sprintf("%d,%d", D, B+1) + ";lean:-:3,2;lean:-:" + DB,
			"build:insertion:" + fmt.Sprintf("%d,1", D+1) + ";build:deletion:3,2;lean:-:" + DB,
		}
		if !quick {
			hists = append(hists, "lean:-:"+DB+";build:deletion:"+fmt.Sprintf("%d,%d", D+1, B+1)+";lean:-:"+DB, "build:insertion:32,1;lean:-:"+DB, "lean:-:1,1;lean:-:31,1;lean:-:2,7;lean:-:"+DB)
		}
		houts := make([]*mapOut, len(hists))
		par.For(len(hists), func(i int) {
			o, e := runMapChild(&mapRun{What: "hist", Mode: "-", D: 0, B: 0, Seed: 3, Procs: 16, Extra: []string{hists[i]}})
			if e != nil {
				c.HarnessError("%v", e)
			}
			houts[i] = o
		}, nil)
		for i, o := range houts {
			if o == nil {
				continue
			}
			steps := strings.Split(hists[i], ";")
			for k, dg := range o.Digests {
				if !strings.HasSuffix(steps[k], ":"+DB) || !strings.HasPrefix(steps[k], "lean") {
					continue
				}
				if dg != hex.EncodeToString(cSum[:]) {
					what := "a different model"
					if strings.HasPrefix(dg, "error") {
						what = dg
					} else if dg == "e3b0c44298fc1c149afbf4c8996fb92427ae41e4649b934ca495991b7852b855" {
						what = "an EMPTY model"
					}
					c.Violation("history-dependent-extraction", fmt.Sprintf("ExtractLean(%d,%d) as step %d of the in-process history [%s] gives %s than the committed one", D, B, k+1, hists[i], what), mapRun{What: "hist", Mode: "-", Seed: 3, Procs: 16, Extra: []string{hists[i]}})
				}
			}
		}
		c.Set("in_process_extraction_histories", int64(len(hists)))
	}
	// CLI path
	cliOut := filepath.Join(scratchDir(), "cli-extracted.lean")
	res, err := runCLI(nil, 10*time.Minute, "extract-circuit", "--output", cliOut, "--tree-depth", fmt.Sprint(D), "--batch-size", fmt.Sprint(B))
	if err != nil {
		c.HarnessError("%v", err)
	}
	if res.Exit != 0 {
		c.Violation("cli-extract", "extract-circuit failed: "+tailStr(res.Stderr), nil)
	} else {
		data, _ := os.ReadFile(cliOut)
		s := sha256.Sum256(data)
		k := fmt.Sprintf("d=%d b=%d", D, B)
		if byCfg[k] != nil && byCfg[k][hex.EncodeToString(s[:])] == 0 {
			c.Violation("cli-extract-differs", "extract-circuit writes a different model than ExtractLean returns in-process", nil)
		}
		// regeneration histories: the output path already holds a model (a longer one from larger
		// dimensions, the same one, a shorter one, unrelated bytes); the file must end up being the
		// extraction at (D,B) and nothing else
		type prior struct {
			name string
			prep func(path string) error
		}
		cliAt := func(path string, d, b int) error {
			r, err := runCLI(nil, 10*time.Minute, "extract-circuit", "--output", path, "--tree-depth", fmt.Sprint(d), "--batch-size", fmt.Sprint(b))
			if err != nil {
				return err
			}
			if r.Exit != 0 {
				return fmt.Errorf("extract-circuit (%d,%d) exits %d: %s", d, b, r.Exit, tailStr(r.Stderr))
			}
			return nil
		}
		priors := []prior{
			{fmt.Sprintf("a model extracted at (%d,%d)", D, B+1), func(p string) error { return cliAt(p, D, B+1) }},
			{fmt.Sprintf("a model extracted at (%d,%d)", D, B), func(p string) error { return cliAt(p, D, B) }},
			{"a model extracted at (2,1)", func(p string) error { return cliAt(p, 2, 1) }},
			{"the committed model followed by stale text", func(p string) error {
				return os.WriteFile(p, append(append([]byte{}, committedRaw...), []byte(strings.Repeat("-- stale tail\n", 2000))...), 0o644)
			}},
		}
		regen := 0
		for i, pr := range priors {
			if c.Expired() {
				c.Cap("regeneration histories: budget")
				break
			}
			path := filepath.Join(scratchDir(), fmt.Sprintf("regen-%d.lean", i))
			if err := pr.prep(path); err != nil {
				c.Violation("cli-extract|"+pr.name, err.Error(), nil)
				continue
			}
			if err := cliAt(path, D, B); err != nil {
				c.Violation("cli-extract|over "+pr.name, err.Error(), nil)
				continue
			}
			got, _ := os.ReadFile(path)
			if !bytes.Equal(got, data) {
				c.Violation("cli-regenerate|"+pr.name, fmt.Sprintf("extract-circuit at (%d,%d) over a file that held %s leaves %d bytes, a fresh extraction has %d: the model file is not what extraction produces", D, B, pr.name, len(got), len(data)), nil)
			}
			os.Remove(path)
			regen++
		}
		c.Set("cli_regeneration_histories", regen)
	}
	// (i) model == committed file, per definition
	extractedRaw, err := os.ReadFile(first)
	if err != nil {
		c.HarnessError("no extraction output: %v", err)
	}
	eDefs, eOrder := splitDefs(string(extractedRaw))
	cDefs, cOrder := splitDefs(committed)
	programs := 0
	disagree := 0
	var names []string
	all := map[string]bool{}
	for k := range eDefs {
		all[k] = true
	}
	for k := range cDefs {
		all[k] = true
	}
	for k := range all {
		names = append(names, k)
	}
	sort.Strings(names)
	for _, n := range names {
		programs++
		e, okE := eDefs[n]
		cm, okC := cDefs[n]
		label := n
		if n == "" {
			label = "<preamble>"
		}
		switch {
		case !okC:
			disagree++
			c.Violation("model-differs|"+label, fmt.Sprintf("definition %s is produced by extraction at (%d,%d) but missing from the committed FormalVerification.lean", label, D, B), nil)
		case !okE:
			disagree++
			c.Violation("model-differs|"+label, fmt.Sprintf("definition %s of the committed FormalVerification.lean is not produced by extraction from the current circuits", label), nil)
		case e != cm:
			disagree++
			c.Violation("model-differs|"+label, fmt.Sprintf("definition %s differs between the committed Lean model and the extraction from the current Go circuits", label), nil)
		}
	}
	if disagree == 0 && (sha256.Sum256(extractedRaw) != cSum || strings.Join(eOrder, ",") != strings.Join(cOrder, ",")) {
		c.Violation("model-differs|bytes", "committed model and extraction differ (same definitions, different bytes/order)", nil)
	}
	// (ii) identifiers referenced by the proofs exist in the extracted model
	refRe := regexp.MustCompile(`SemaphoreMTB\.([A-Za-z_][A-Za-z0-9_]*)`)
	refs := map[string]bool{}
	files, _ := filepath.Glob(filepath.Join(fvDir, "FormalVerification", "*.lean"))
	files = append(files, filepath.Join(fvDir, "Main.lean"))
	for _, f := range files {
		data, _ := os.ReadFile(f)
		for _, m := range refRe.FindAllSubmatch(data, -1) {
			refs[string(m[1])] = true
		}
	}
	missing := 0
	for n := range refs {
		if _, ok := eDefs[n]; !ok && n != "F" && n != "Order" {
			missing++
			c.Violation("missing-definition|"+n, fmt.Sprintf("the Lean proofs refer to SemaphoreMTB.%s, which the model extracted from the current circuits does not define", n), nil)
		}
	}
	c.Set("programs", int64(programs))
	c.Set("disagreements_checked", int64(programs))
	c.Set("definitions_in_extracted_model", int64(len(eDefs)-1))
	c.Set("identifiers_referenced_by_proofs", int64(len(refs)))
	c.Set("identifiers_missing", int64(missing))
	c.Set("extractions_run", int64(done))
	c.Set("main_dimension_extractions", int64(nMain))
	c.Set("evaluations", int64(done))
	c.Set("distinct_nontrivial", int64(len(byCfg)))
	c.Set("exhaustive", done == len(runs))
	sn := names
	if len(sn) > 12 {
		sn = sn[:12]
	}
	c.Sample(map[string]any{"definitions_compared": sn})
	c.Sample(runs[1])
	c.Set("rule", "programs = definitions of the Lean model (split on `def`), each compared textually between the committed FormalVerification.lean and ExtractLean(30,4) run on the current Go circuits; extraction repeated in fresh processes over map-iteration seeds x GOMAXPROCS, three times in one process, and through the CLI; determinism sweep over other (depth, batch); every SemaphoreMTB.<name> used by Main.lean / FormalVerification/*.lean must be defined")
	c.Assume("the Lean proofs themselves are not rebuilt (the project pins a 2023 toolchain and git dependencies that are not in this image); the claim decided is model == extraction")
}
