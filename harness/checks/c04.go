package checks

import (
	"encoding/hex"
	"encoding/json"
	"fmt"
	"math/big"
	"math/rand"
	"time"

	"github.com/consensys/gnark-crypto/ecc/bn254/fr"
	"verif/harness/ev"
	"verif/harness/gad"
	"verif/harness/r1csmc"
	"verif/harness/ref"
)

type c04Case struct {
	Kind    string `json:"kind"` // engine | compiled
	Msg     string `json:"msg_hex"`
	SHA3    bool   `json:"sha3"`
	FlipBit int    `json:"flip_bit"` // -1: present the reference digest; else flip that bit of it
}

func init() {
	Registry["C04"] = func() {
		ev.Main("C04", "exploration", 120*time.Second, 30*time.Minute, c04Body, func(c *ev.Ctx, raw json.RawMessage) {
			var cs c04Case
			if err := json.Unmarshal(raw, &cs); err != nil {
				c.HarnessError("%v", err)
			}
			got, want, err := c04Eval(&cs, nil, nil)
			if err != nil {
				c.HarnessError("%v", err)
			}
			fmt.Printf("replay: got=%s want=%s\n", got, want)
			if got != want {
				c.Violation("replay", fmt.Sprintf("got %s, want %s", got, want), cs)
			}
		})
	}
}

func bitsLSB(b []byte) []*big.Int {
	out := make([]*big.Int, 0, 8*len(b))
	for _, x := range b {
		for j := 0; j < 8; j++ {
			out = append(out, big.NewInt(int64((x>>uint(j))&1)))
		}
	}
	return out
}

func c04Eval(cs *c04Case, _ *tinyStats, bs *bnStats) (string, string, error) {
	msg, err := hex.DecodeString(cs.Msg)
	if err != nil {
		return "", "", err
	}
	var dig []byte
	if cs.SHA3 {
		dig = ref.SHA3_256(msg)
	} else {
		dig = ref.Keccak256(msg)
	}
	want := "accept"
	if cs.FlipBit >= 0 {
		dig = append([]byte{}, dig...)
		dig[cs.FlipBit/8] ^= 1 << uint(cs.FlipBit%8)
		want = "reject"
	}
	in, out := bitsLSB(msg), bitsLSB(dig)
	shape := &gad.Keccak{In: gad.Vars(len(in)), Out: gad.Vars(256), SHA3: cs.SHA3}
	asg := &gad.Keccak{In: fv(in), Out: fv(out)}
	got := "reject"
	switch cs.Kind {
	case "engine":
		if gad.Solved(shape, asg, ref.R) == nil {
			got = "accept"
		}
	case "compiled":
		key := fmt.Sprintf("keccak-%d-%v", len(in), cs.SHA3)
		var sys *bnSys
		if v, ok := sysCache.Load(key); ok {
			sys = v.(*bnSys)
		} else {
			s, _, err := r1csmc.CompileBN(shape)
			if err != nil {
				return "", "", err
			}
			sysCache.Store(key, s)
			sys = s
		}
		if len(sys.Sites) != 0 {
			return "", "", fmt.Errorf("Keccak system unexpectedly contains %d hint sites", len(sys.Sites))
		}
		hon, _, err := bnSolve(sys, asg, 0, nil, bs)
		if err != nil {
			return "", "", err
		}
		if hon > 0 {
			got = "accept"
		}
	}
	return got, want, nil
}

var _ = fr.Element{}

func c04Body(c *ev.Ctx) {
	r := &caseRunner{c: c, outcomes: map[string]int64{}}
	quick := c.Quick()
	var lengths []int
	seen := map[int]bool{}
	addL := func(l int) {
		if !seen[l] {
			seen[l] = true
			lengths = append(lengths, l)
		}
	}
	if quick {
		for _, l := range []int{0, 1, 2, 3, 31, 32, 64, 133, 134, 135, 136, 137, 138, 139, 269, 270, 271, 272, 273, 274, 275, 405, 406, 407, 408, 409} {
			addL(l)
		}
		for b := 1; b <= 4; b++ {
			addL(68 + 32*b)
			addL(64 + 4*b)
		}
		addL(68 + 32*32)
		addL(64 + 4*32)
	} else {
		for l := 0; l <= 409; l++ {
			addL(l)
		}
		for b := 1; b <= 32; b++ {
			addL(68 + 32*b)
			addL(64 + 4*b)
		}
	}
	rng := rand.New(rand.NewSource(c.Seed))
	content := func(kind, L int) []byte {
		m := make([]byte, L)
		switch kind {
		case 0: // zero
		case 1:
			for i := range m {
				m[i] = 0xff
			}
		case 2: // single one-bit
			if L > 0 {
				bit := (7 * L) % (8 * L)
				m[bit/8] = 1 << uint(bit%8)
			}
		case 3:
			for i := range m {
				m[i] = byte(7*i + 3)
			}
		case 4:
			rng.Read(m)
		}
		return m
	}
	kinds := []int{0, 1, 2, 3, 4}
	if quick {
		kinds = []int{1, 2, 4}
	}
	var cases []c04Case
	distinct := map[string]bool{}
	for _, L := range lengths {
		for _, sha := range []bool{false, true} {
			for _, k := range kinds {
				m := hex.EncodeToString(content(k, L))
				distinct[fmt.Sprintf("%s|%v", m, sha)] = true
				cases = append(cases, c04Case{"engine", m, sha, -1})
				for _, fb := range []int{L % 256, 0, 255} {
					if quick && fb != L%256 {
						continue
					}
					cases = append(cases, c04Case{"engine", m, sha, fb})
				}
			}
		}
	}
	runCases(r, "KeccakGadget in gnark engine (BN254): lengths x domains x contents x {digest, flipped digest}", cases, c04Eval)
	cases = nil
	bl := []int{0, 135, 136}
	if !quick {
		bl = []int{0, 1, 135, 136, 137, 271, 272, 273}
	}
	for _, L := range bl {
		for _, sha := range []bool{false, true} {
			if quick && sha && L != 135 {
				continue
			}
			m := hex.EncodeToString(content(4, L))
			cases = append(cases, c04Case{"compiled", m, sha, -1}, c04Case{"compiled", m, sha, L % 256})
		}
	}
	runCases(r, "KeccakGadget compiled to R1CS, evaluated by the independent evaluator (boundary lengths)", cases, c04Eval)
	runPairIsolation(c, c04Pairs(quick))
	r.finish("C04")
	c.Set("distinct_nontrivial", int64(len(distinct)))
	c.Set("message_lengths", int64(len(lengths)))
	c.Set("rule", "cases = (message, domain, presented digest); messages: every listed byte length x content class {zero, ones, single bit, pattern, seeded random}; non-trivial/distinct = distinct (message, domain) pairs; oracle = x/crypto sha3 (legacy Keccak-256 / SHA3-256); each message is checked with the right digest (must accept) and with flipped digest bits (must reject)")
	c.Assume("contents range over 5 classes per length, not all 2^(8L) messages")
	c.Assume("the compiled Keccak system contains no hint (checked per run), so satisfiability is a function of the inputs and the engine verdict transfers")
}
