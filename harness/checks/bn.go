package checks

import (
	"fmt"
	"math/big"
	"sync"

	"github.com/consensys/gnark-crypto/ecc"
	"github.com/consensys/gnark-crypto/ecc/bn254/fr"
	"github.com/consensys/gnark/constraint"
	"github.com/consensys/gnark/frontend"
	"verif/harness/r1csmc"
	"verif/harness/ref"
	"worldcoin/gnark-mbu/prover"
)

type bnSys = r1csmc.Sys[fr.Element, r1csmc.BN]

type bnStats struct {
	mu                                           sync.Mutex
	Runs, Nodes, Edges, Branches, Deviated, Surv int64
	Accepted, Rejected                           int64
}

// bnSolve explores the compiled BN254 system for one input assignment with the
// hint adversary (deviation bound maxDev) and returns the number of accepting
// states reached with 0 deviations and with >=1 deviation.
func bnSolve(sys *bnSys, assignment frontend.Circuit, maxDev int, nonBool []int, st *bnStats) (honestAcc, advAcc int, err error) {
	w, err := frontend.NewWitness(assignment, ecc.BN254.ScalarField())
	if err != nil {
		return 0, 0, err
	}
	vec, ok := w.Vector().(fr.Vector)
	if !ok {
		return 0, 0, fmt.Errorf("unexpected witness vector type %T", w.Vector())
	}
	if len(vec)+1 != sys.NPublic+sys.NSecret {
		return 0, 0, fmt.Errorf("witness has %d values, system has %d inputs", len(vec), sys.NPublic+sys.NSecret-1)
	}
	init := make([]fr.Element, sys.NWires)
	set := make([]bool, sys.NWires)
	for i := range vec {
		init[i+1] = vec[i]
		set[i+1] = true
	}
	x := &r1csmc.Search[fr.Element, r1csmc.BN]{S: sys, Policy: r1csmc.AdversaryPolicy(nonBool), MaxDev: maxDev}
	// accepting states are classified by re-solving honestly: count total, then honest-only
	total := 0
	x.Run(init, set, func(w []fr.Element) bool { total++; return true })
	if x.Err != nil {
		return 0, 0, x.Err
	}
	if st != nil {
		st.mu.Lock()
		st.Runs++
		st.Nodes += x.Nodes
		st.Edges += x.Edges
		st.Branches += x.Branches
		st.Deviated += x.Deviated
		st.Surv += x.Survived
		st.mu.Unlock()
	}
	if maxDev == 0 {
		return total, 0, nil
	}
	h := &r1csmc.Search[fr.Element, r1csmc.BN]{S: sys, Policy: r1csmc.AdversaryPolicy(nil), MaxDev: 0}
	hon := 0
	h.Run(init, set, func(w []fr.Element) bool { hon++; return true })
	if h.Err != nil {
		return 0, 0, h.Err
	}
	return hon, total - hon, nil
}

var sysCache sync.Map

func bnInsertionSys(d, b int) (*bnSys, constraint.ConstraintSystem, error) {
	key := fmt.Sprintf("ins-%d-%d", d, b)
	if v, ok := sysCache.Load(key); ok {
		p := v.([2]any)
		return p[0].(*bnSys), p[1].(constraint.ConstraintSystem), nil
	}
	ccs, err := prover.BuildR1CSInsertion(uint32(d), uint32(b))
	if err != nil {
		return nil, nil, err
	}
	s, err := r1csmc.LoadBN(ccs)
	if err != nil {
		return nil, nil, err
	}
	sysCache.Store(key, [2]any{s, ccs})
	return s, ccs, nil
}

func bnDeletionSys(d, b int) (*bnSys, constraint.ConstraintSystem, error) {
	key := fmt.Sprintf("del-%d-%d", d, b)
	if v, ok := sysCache.Load(key); ok {
		p := v.([2]any)
		return p[0].(*bnSys), p[1].(constraint.ConstraintSystem), nil
	}
	ccs, err := prover.BuildR1CSDeletion(uint32(d), uint32(b))
	if err != nil {
		return nil, nil, err
	}
	s, err := r1csmc.LoadBN(ccs)
	if err != nil {
		return nil, nil, err
	}
	sysCache.Store(key, [2]any{s, ccs})
	return s, ccs, nil
}

// ---- batch descriptions shared by several checks ----------------------------

type insBatch struct {
	Depth  int        `json:"depth"`
	Hash   string     `json:"hash"` // public input actually presented
	Start  string     `json:"start"`
	Pre    string     `json:"pre"`
	Post   string     `json:"post"`
	Comms  []string   `json:"comms"`
	Proofs [][]string `json:"proofs"`
}

type delBatch struct {
	Depth  int        `json:"depth"`
	Hash   string     `json:"hash"`
	Pre    string     `json:"pre"`
	Post   string     `json:"post"`
	Idx    []string   `json:"idx"`
	Items  []string   `json:"items"`
	Proofs [][]string `json:"proofs"`
}

func strs(v []*big.Int) []string {
	out := make([]string, len(v))
	for i := range v {
		out[i] = v[i].String()
	}
	return out
}
func strs2(v [][]*big.Int) [][]string {
	out := make([][]string, len(v))
	for i := range v {
		out[i] = strs(v[i])
	}
	return out
}
func ints(v []string) []*big.Int {
	out := make([]*big.Int, len(v))
	for i := range v {
		out[i] = bigs(v[i])
	}
	return out
}
func ints2(v [][]string) [][]*big.Int {
	out := make([][]*big.Int, len(v))
	for i := range v {
		out[i] = ints(v[i])
	}
	return out
}
func fv(v []*big.Int) []frontend.Variable {
	out := make([]frontend.Variable, len(v))
	for i := range v {
		out[i] = v[i]
	}
	return out
}
func fv2(v [][]*big.Int) [][]frontend.Variable {
	out := make([][]frontend.Variable, len(v))
	for i := range v {
		out[i] = fv(v[i])
	}
	return out
}

// insCircuit builds shape + assignment of the repository's insertion circuit.
func (b *insBatch) circuits() (shape, asg *prover.InsertionMbuCircuit) {
	n := len(b.Comms)
	shape = &prover.InsertionMbuCircuit{Depth: b.Depth, BatchSize: n, IdComms: make([]frontend.Variable, n), MerkleProofs: make([][]frontend.Variable, n)}
	for i := range shape.MerkleProofs {
		shape.MerkleProofs[i] = make([]frontend.Variable, b.Depth)
	}
	asg = &prover.InsertionMbuCircuit{InputHash: bigs(b.Hash), StartIndex: bigs(b.Start), PreRoot: bigs(b.Pre), PostRoot: bigs(b.Post), IdComms: fv(ints(b.Comms)), MerkleProofs: fv2(ints2(b.Proofs))}
	return
}

func (b *delBatch) circuits() (shape, asg *prover.DeletionMbuCircuit) {
	n := len(b.Idx)
	shape = &prover.DeletionMbuCircuit{Depth: b.Depth, BatchSize: n, DeletionIndices: make([]frontend.Variable, n), IdComms: make([]frontend.Variable, n), MerkleProofs: make([][]frontend.Variable, n)}
	for i := range shape.MerkleProofs {
		shape.MerkleProofs[i] = make([]frontend.Variable, b.Depth)
	}
	asg = &prover.DeletionMbuCircuit{InputHash: bigs(b.Hash), DeletionIndices: fv(ints(b.Idx)), PreRoot: bigs(b.Pre), PostRoot: bigs(b.Post), IdComms: fv(ints(b.Items)), MerkleProofs: fv2(ints2(b.Proofs))}
	return
}

// refHashIns: Keccak of the canonical packing as a 256-bit integer; ok=false if a
// value does not fit its slot (then no hash is defined and the circuit must reject).
func (b *insBatch) refHash(f *ref.Field) (*big.Int, bool) {
	start := bigs(b.Start)
	if start.BitLen() > 32 {
		return nil, false
	}
	return ref.KeccakInt(ref.PackInsertion(uint32(start.Uint64()), f.Mod(bigs(b.Pre)), f.Mod(bigs(b.Post)), modAll(f, ints(b.Comms)))), true
}

func (b *delBatch) refHash(f *ref.Field) (*big.Int, bool) {
	idx := make([]uint32, len(b.Idx))
	for i, s := range b.Idx {
		v := bigs(s)
		if v.BitLen() > 32 {
			return nil, false
		}
		idx[i] = uint32(v.Uint64())
	}
	return ref.KeccakInt(ref.PackDeletion(idx, f.Mod(bigs(b.Pre)), f.Mod(bigs(b.Post)))), true
}

func modAll(f *ref.Field, v []*big.Int) []*big.Int {
	out := make([]*big.Int, len(v))
	for i := range v {
		out[i] = f.Mod(v[i])
	}
	return out
}

// reduced returns a copy with every value reduced modulo p (what gnark's witness
// construction does; the test engine does not reduce inputs itself).
func (b *insBatch) reduced(f *ref.Field) *insBatch {
	m := func(s string) string { return f.Mod(bigs(s)).String() }
	n := *b
	n.Hash, n.Start, n.Pre, n.Post = m(b.Hash), m(b.Start), m(b.Pre), m(b.Post)
	n.Comms = nil
	for _, x := range b.Comms {
		n.Comms = append(n.Comms, m(x))
	}
	n.Proofs = nil
	for _, pr := range b.Proofs {
		var q []string
		for _, x := range pr {
			q = append(q, m(x))
		}
		n.Proofs = append(n.Proofs, q)
	}
	return &n
}

func (b *delBatch) reduced(f *ref.Field) *delBatch {
	m := func(s string) string { return f.Mod(bigs(s)).String() }
	n := *b
	n.Hash, n.Pre, n.Post = m(b.Hash), m(b.Pre), m(b.Post)
	n.Idx, n.Items, n.Proofs = nil, nil, nil
	for _, x := range b.Idx {
		n.Idx = append(n.Idx, m(x))
	}
	for _, x := range b.Items {
		n.Items = append(n.Items, m(x))
	}
	for _, pr := range b.Proofs {
		var q []string
		for _, x := range pr {
			q = append(q, m(x))
		}
		n.Proofs = append(n.Proofs, q)
	}
	return &n
}
