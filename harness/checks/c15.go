package checks

import (
	"bytes"
	"encoding/json"
	"fmt"
	"io"
	"os"
	"sort"
	"sync"
	"sync/atomic"
	"time"

	"github.com/consensys/gnark-crypto/ecc"
	"github.com/consensys/gnark/backend/groth16"
	"github.com/consensys/gnark/frontend"
	"github.com/consensys/gnark/frontend/cs/r1cs"
	"verif/harness/ev"
	"verif/harness/par"
	"worldcoin/gnark-mbu/prover"
)

// C15: crash-point enumeration: every strict prefix of a proving-system file must be rejected.

type c15Case struct {
	System string `json:"system"` // small | insertion | deletion
	Format string `json:"format"` // compressed | raw
	Cut    int    `json:"cut"`
	Via    string `json:"via"` // reader | file | cli-<cmd>
}

type dummyCircuit struct {
	X frontend.Variable `gnark:",public"`
	Y frontend.Variable
}

func (c *dummyCircuit) Define(api frontend.API) error {
	a := api.Mul(c.Y, c.Y)
	b := api.Mul(a, c.Y)
	api.AssertIsEqual(api.Mul(b, c.Y), c.X)
	return nil
}

var (
	c15Mu    sync.Mutex
	c15Files = map[string][]byte{}
)

// c15Small: the small (dummy-circuit) proving system once c15Bytes("small", ...) has built it.
var c15Small *prover.ProvingSystem

func c15Bytes(system, format string) ([]byte, error) {
	k := system + "/" + format
	c15Mu.Lock()
	defer c15Mu.Unlock()
	if b, ok := c15Files[k]; ok {
		return b, nil
	}
	var ps *prover.ProvingSystem
	if system == "small" {
		ccs, err := frontend.Compile(ecc.BN254.ScalarField(), r1cs.NewBuilder, &dummyCircuit{})
		if err != nil {
			return nil, err
		}
		pk, vk, err := groth16.Setup(ccs)
		if err != nil {
			return nil, err
		}
		ps = &prover.ProvingSystem{TreeDepth: 1, BatchSize: 1, ProvingKey: pk, VerifyingKey: vk, ConstraintSystem: ccs}
		c15Small = ps
	} else {
		var err error
		if ps, err = getSystem(system, 1, 1, 0); err != nil {
			return nil, err
		}
	}
	for _, f := range []string{"compressed", "raw"} {
		var buf bytes.Buffer
		var err error
		if f == "raw" {
			_, err = ps.WriteRawTo(&buf)
		} else {
			_, err = ps.WriteTo(&buf)
		}
		if err != nil {
			return nil, err
		}
		c15Files[system+"/"+f] = buf.Bytes()
		// sanity: the complete file must load
		chk := new(prover.ProvingSystem)
		if _, err := chk.UnsafeReadFrom(bytes.NewReader(buf.Bytes())); err != nil {
			return nil, fmt.Errorf("complete %s/%s file does not load: %v", system, f, err)
		}
	}
	return c15Files[k], nil
}

var (
	c15ProofMu sync.Mutex
	c15Proofs  = map[string][2]string{}
)

// c15ValidProof: proof JSON (rendered by the harness) and hex input hash of a valid all-padding
// deletion / empty-tree insertion at (1,1) under the system whose file is being cut.
func c15ValidProof(mode string) ([]byte, string, error) {
	c15ProofMu.Lock()
	defer c15ProofMu.Unlock()
	if p, ok := c15Proofs[mode]; ok {
		return []byte(p[0]), p[1], nil
	}
	ps, err := getSystem(mode, 1, 1, 0)
	if err != nil {
		return nil, "", err
	}
	var pr *prover.Proof
	var hash string
	if mode == "deletion" {
		bt := validDelBatches(1, 1)[2]
		pr, err = ps.ProveDeletion(bt.params())
		hash = "0x" + bigs(bt.Hash).Text(16)
	} else {
		bt := validInsBatches(1, 1)[0]
		pr, err = ps.ProveInsertion(bt.params())
		hash = "0x" + bigs(bt.Hash).Text(16)
	}
	if err != nil {
		return nil, "", err
	}
	co, err := proofCoords(pr.Proof)
	if err != nil {
		return nil, "", err
	}
	hx := func(i int) string { return "0x" + co[i].Text(16) }
	js, _ := json.Marshal(map[string]any{"ar": []string{hx(0), hx(1)}, "bs": [][]string{{hx(2), hx(3)}, {hx(4), hx(5)}}, "krs": []string{hx(6), hx(7)}})
	c15Proofs[mode] = [2]string{string(js), hash}
	return js, hash, nil
}

func init() {
	Registry["C15"] = func() {
		ev.Main("C15", "fault_enumeration", 240*time.Second, 40*time.Minute, c15Body, func(c *ev.Ctx, raw json.RawMessage) {
			var cs c15Case
			if err := json.Unmarshal(raw, &cs); err != nil {
				c.HarnessError("%v", err)
			}
			msg, err := c15Eval(&cs)
			if err != nil {
				c.HarnessError("%v", err)
			}
			fmt.Println("replay:", msg)
			if msg != "" {
				c.Violation("replay", msg, cs)
			}
		})
	}
}

var (
	c15FullMu    sync.Mutex
	c15FullPaths = map[string]string{}
)

// c15FullPath: the complete file of a system on disk (written once per run).
func c15FullPath(system, format string, data []byte) (string, error) {
	c15FullMu.Lock()
	defer c15FullMu.Unlock()
	k := system + "/" + format
	if p, ok := c15FullPaths[k]; ok {
		return p, nil
	}
	p := tmpName("c15full")
	if err := os.WriteFile(p, data, 0o644); err != nil {
		return "", err
	}
	c15FullPaths[k] = p
	return p, nil
}

// c15HangAfter: liveness deadline of one read; set by c15Body to max(90 s, 60 x the duration of reading the
// complete real file) — a read that has not returned by then (and again with twice the deadline) hangs.
var c15HangAfter = 10 * time.Minute

// c15Read runs the reader in a goroutine with a liveness deadline far above its normal duration.
func c15Read(f func() error) (err error, panicked any, hung bool) {
	type res struct {
		err error
		p   any
	}
	ch := make(chan res, 1)
	go func() {
		var r res
		defer func() {
			if p := recover(); p != nil {
				r.p = p
			}
			ch <- r
		}()
		r.err = f()
	}()
	select {
	case r := <-ch:
		return r.err, r.p, false
	case <-time.After(c15HangAfter):
		// believed only if it reproduces: a second run with the deadline doubled
		ch2 := make(chan res, 1)
		go func() {
			var r res
			defer func() {
				if p := recover(); p != nil {
					r.p = p
				}
				ch2 <- r
			}()
			r.err = f()
		}()
		select {
		case r := <-ch2:
			return r.err, r.p, false
		case <-time.After(2 * c15HangAfter):
			return nil, nil, true
		}
	}
}

func c15Eval(cs *c15Case) (string, error) {
	data, err := c15Bytes(cs.System, cs.Format)
	if err != nil {
		return "", err
	}
	if cs.Cut < 0 || cs.Cut >= len(data) {
		return "", fmt.Errorf("cut %d outside strict prefixes of a %d-byte file", cs.Cut, len(data))
	}
	prefix := data[:cs.Cut]
	where := fmt.Sprintf("%s/%s file cut at byte %d of %d", cs.System, cs.Format, cs.Cut, len(data))
	switch {
	case cs.Via == "reader":
		e, p, hung := c15Read(func() error {
			ps := new(prover.ProvingSystem)
			_, err := ps.UnsafeReadFrom(bytes.NewReader(prefix))
			return err
		})
		switch {
		case hung:
			return "UnsafeReadFrom hangs on " + where, nil
		case p != nil:
			return fmt.Sprintf("UnsafeReadFrom panics on %s: %v", where, p), nil
		case e == nil:
			return "UnsafeReadFrom accepts " + where, nil
		}
	case cs.Via == "file" || cs.Via == "file-after-full":
		if cs.Via == "file-after-full" {
			// non-initial state of the process: the complete file of the same system was loaded just before
			full, err := c15FullPath(cs.System, cs.Format, data)
			if err != nil {
				return "", err
			}
			if _, e, p := func() (ps *prover.ProvingSystem, err error, pan any) {
				defer func() { pan = recover() }()
				ps, err = prover.ReadSystemFromFile(full)
				return
			}(); e != nil || p != nil {
				return fmt.Sprintf("ReadSystemFromFile rejects the COMPLETE %s/%s file: %v %v", cs.System, cs.Format, e, p), nil
			}
			where += " (after the complete file had been loaded in the same process)"
		}
		path := tmpName("c15")
		if err := os.WriteFile(path, prefix, 0o644); err != nil {
			return "", err
		}
		defer os.Remove(path)
		e, p, hung := c15Read(func() error {
			_, err := prover.ReadSystemFromFile(path)
			return err
		})
		switch {
		case hung:
			return "ReadSystemFromFile hangs on " + where, nil
		case p != nil:
			return fmt.Sprintf("ReadSystemFromFile panics on %s: %v", where, p), nil
		case e == nil:
			return "ReadSystemFromFile accepts " + where, nil
		}
	default: // cli-<command>
		path := tmpName("c15cli")
		if err := os.WriteFile(path, prefix, 0o644); err != nil {
			return "", err
		}
		defer os.Remove(path)
		cmd := cs.Via[4:]
		var args []string
		var stdin []byte
		outp := tmpName("c15out")
		defer os.Remove(outp)
		switch cmd {
		case "start":
			args = []string{"start", "--mode", "deletion", "--keys-file", path, "--prover-address", "127.0.0.1:0", "--metrics-address", "127.0.0.1:0"}
		case "prove":
			args = []string{"prove", "--mode", "deletion", "--keys-file", path}
			stdin = []byte(`{"inputHash":"0x0","deletionIndices":[2],"preRoot":"0x1","postRoot":"0x1","identityCommitments":["0x0"],"merkleProofs":[["0x0"]]}`)
		case "verify":
			// a VALID proof with its own input hash: the only thing wrong is the keys file
			pj, h, err := c15ValidProof(cs.System)
			if err != nil {
				return "", err
			}
			args = []string{"verify", "--mode", cs.System, "--keys-file", path, "--input-hash", h}
			stdin = pj
		case "export-solidity":
			args = []string{"export-solidity", "--keys-file", path, "--output", outp}
		case "convert-to-raw":
			args = []string{"convert-to-raw", "--input", path, "--output", outp}
		}
		res, err := runCLI(stdin, 60*time.Second, args...)
		if err != nil {
			return "", err
		}
		if res.TimedOut {
			return fmt.Sprintf("`%s` keeps running (serving or hanging) with %s", cmd, where), nil
		}
		if res.Exit == 0 {
			return fmt.Sprintf("`%s` exits 0 with %s", cmd, where), nil
		}
		if bytes.Contains(res.Stderr, []byte("panic:")) || bytes.Contains(res.Stderr, []byte("goroutine 1 [running]")) {
			return fmt.Sprintf("`%s` panics with %s: %.200s", cmd, where, res.Stderr[bytes.Index(res.Stderr, []byte("panic")):]), nil
		}
		if cmd == "convert-to-raw" {
			if _, e := prover.ReadSystemFromFile(outp); e == nil {
				return "convert-to-raw left a loadable output file from " + where, nil
			}
		}
	}
	return "", nil
}

// countingWriter records the offset of every Write call: the structural boundaries of the file.
type countingWriter struct {
	n    int
	offs []int
}

func (w *countingWriter) Write(p []byte) (int, error) {
	w.offs = append(w.offs, w.n)
	w.n += len(p)
	return len(p), nil
}

var _ io.Writer = (*countingWriter)(nil)

func c15Body(c *ev.Ctx) {
	quick := c.Quick()
	var cases []c15Case
	// ---- A: every byte offset of the structurally identical small system ---------
	for _, f := range []string{"compressed", "raw"} {
		data, err := c15Bytes("small", f)
		if err != nil {
			c.HarnessError("%v", err)
		}
		c.Set("small_file_bytes_"+f, int64(len(data)))
		for cut := 0; cut < len(data); cut++ {
			cases = append(cases, c15Case{"small", f, cut, "reader"})
			if cut < 64 || cut%7 == 0 || cut > len(data)-64 {
				cases = append(cases, c15Case{"small", f, cut, "file"})
			}
			if cut%16 == 5 || cut == len(data)-1 {
				cases = append(cases, c15Case{"small", f, cut, "file-after-full"})
			}
		}
	}
	nA := len(cases)
	// ---- B: real systems: structural cut points ---------------------------------
	systems := []string{"deletion"}
	if !quick {
		systems = append(systems, "insertion")
	}
	var cliCuts []c15Case
	nAligned := 0
	for _, sname := range systems {
		ps, err := getSystem(sname, 1, 1, 0)
		if err != nil {
			c.HarnessError("%v", err)
		}
		for _, f := range []string{"compressed", "raw"} {
			data, err := c15Bytes(sname, f)
			if err != nil {
				c.HarnessError("%v", err)
			}
			L := len(data)
			c.Set(fmt.Sprintf("%s_file_bytes_%s", sname, f), int64(L))
			{
				// liveness deadline from the measured duration of reading the complete file
				t0 := time.Now()
				full := new(prover.ProvingSystem)
				if _, err := full.UnsafeReadFrom(bytes.NewReader(data)); err != nil {
					c.Violation("complete-file-rejected|"+sname+"|"+f, "the complete "+sname+"/"+f+" file is rejected: "+err.Error(), nil)
				}
				if d := 60 * time.Since(t0); d > 90*time.Second {
					if c15HangAfter == 10*time.Minute || d > c15HangAfter {
						c15HangAfter = d
					}
				} else if c15HangAfter == 10*time.Minute {
					c15HangAfter = 90 * time.Second
				}
			}
			// section boundaries: header | pk | vk | cs
			var pkLen, vkLen countingWriter
			if f == "raw" {
				ps.ProvingKey.WriteRawTo(&pkLen)
				ps.VerifyingKey.WriteRawTo(&vkLen)
			} else {
				ps.ProvingKey.WriteTo(&pkLen)
				ps.VerifyingKey.WriteTo(&vkLen)
			}
			bounds := []int{0, 4, 8, 8 + pkLen.n, 8 + pkLen.n + vkLen.n, L}
			cuts := map[int]bool{}
			for i := 0; i <= 16; i++ {
				cuts[i] = true
			}
			for _, b := range bounds {
				for _, d := range []int{0, 1, 2, 3, 4, 8, 31, 32, 33, 64} {
					cuts[b+d] = true
					cuts[b-d] = true
				}
			}
			// offsets at which the size of consecutive writes changes (length prefixes, array starts)
			var w countingWriter
			if f == "raw" {
				ps.WriteRawTo(&w)
			} else {
				ps.WriteTo(&w)
			}
			prevSize := -1
			changes := 0
			for i := 0; i+1 < len(w.offs); i++ {
				sz := w.offs[i+1] - w.offs[i]
				if sz != prevSize {
					cuts[w.offs[i]] = true
					cuts[w.offs[i]+1] = true
					cuts[w.offs[i]-1] = true
					changes++
				}
				prevSize = sz
			}
			c.Set(fmt.Sprintf("%s_%s_write_size_changes", sname, f), int64(changes))
			for _, d := range []int{1, 2, 8, 64, 1000, L / 2, L / 3} {
				cuts[L-d] = true
			}
			var list []int
			for k := range cuts {
				if k >= 0 && k < L {
					list = append(list, k)
				}
			}
			sort.Ints(list)
			if quick && len(list) > 90 {
				// keep every boundary neighbourhood but thin the rest
				var thin []int
				for i, k := range list {
					if i%3 == 0 || k < 20 || k > L-70 {
						thin = append(thin, k)
					}
				}
				list = thin
			}
			for _, k := range list {
				cases = append(cases, c15Case{sname, f, k, "reader"})
			}
			// file lengths that are multiples of a power of two (buffer, block, chunk and page sizes): a reader
			// that works in blocks meets "the file ends exactly where a block ends" only there
			aligned := map[int]bool{}
			for _, sh := range []uint{9, 12, 16, 20, 22, 23, 24, 25} {
				unit := 1 << sh
				if unit >= L {
					continue
				}
				nm := (L - 1) / unit
				all := sh >= 22 || (!quick && sh >= 20)
				for m := 1; m <= nm; m++ {
					if all || m <= 2 || m > nm-2 {
						aligned[m*unit] = true
					}
				}
			}
			var alist []int
			for k := range aligned {
				alist = append(alist, k)
			}
			sort.Ints(alist)
			if !quick || sname == "deletion" {
				for _, k := range alist {
					cases = append(cases, c15Case{sname, f, k, "file"})
					if !quick || k%(1<<22) == 0 {
						cases = append(cases, c15Case{sname, f, k, "reader"})
					}
				}
				nAligned += len(alist)
			}
			for _, k := range []int{0, 5, 8 + pkLen.n/2, 8 + pkLen.n + vkLen.n/2, 8 + pkLen.n + vkLen.n + (L-8-pkLen.n-vkLen.n)/2, L - 1} {
				cases = append(cases, c15Case{sname, f, k, "file"})
				if f == "raw" || !quick {
					cases = append(cases, c15Case{sname, f, k, "file-after-full"})
				}
				if sname == "deletion" && (f == "raw" || !quick) {
					for _, cmd := range []string{"start", "prove", "verify", "export-solidity", "convert-to-raw"} {
						if quick && cmd == "export-solidity" && k != L-1 {
							continue
						}
						cliCuts = append(cliCuts, c15Case{sname, f, k, "cli-" + cmd})
					}
				}
			}
		}
	}
	cases = append(cases, cliCuts...)
	c.Logf("%d small-system cuts, %d real-system cuts (%d of them power-of-two aligned lengths), %d CLI runs", nA, len(cases)-nA-len(cliCuts), nAligned, len(cliCuts))
	c.Set("aligned_file_lengths", int64(nAligned))
	var rejected int64
	done := par.For(len(cases), func(i int) {
		msg, err := c15Eval(&cases[i])
		if err != nil {
			c.HarnessError("%v", err)
		}
		if msg != "" {
			c.Violation(fmt.Sprintf("%s|%s|%s|cut=%d", cases[i].Via, cases[i].System, cases[i].Format, cases[i].Cut), msg, cases[i])
		} else {
			atomic.AddInt64(&rejected, 1)
		}
	}, func() bool { return c.Expired() })
	if done < len(cases) {
		c.Cap(fmt.Sprintf("%d of %d cut points", done, len(cases)))
	}
	c.Sample(cases[5])
	c.Sample(cases[nA+3])
	c.Sample(cases[len(cases)-1])
	c.Set("evaluations", int64(done))
	c.Set("distinct_nontrivial", rejected)
	c.Set("small_system_every_byte_exhaustive", done >= nA)
	c.Set("exhaustive", done == len(cases))
	c.Set("cli_runs", int64(len(cliCuts)))
	c.Set("rule", "crash points = file lengths: every strict prefix (every byte offset) of a small proving system in both formats through UnsafeReadFrom and ReadSystemFromFile; for real (1,1) systems the structural cut points: offsets 0..16, every section boundary (header|pk|vk|cs) +-{0,1,2,3,4,8,31,32,33,64}, every offset where the size of consecutive writes changes +-1, and the tail; CLI start/prove/verify/export-solidity/convert-to-raw on one cut per section; oracle: error (non-zero exit), no panic, no hang, no loadable output; distinct = cuts that were rejected cleanly")
	c.Assume("the reader is one generic code path whose behaviour changes only at field boundaries, so the small system stands for every byte offset of the large ones")
}
