package checks

import (
	"bytes"
	"encoding/hex"
	"encoding/json"
	"fmt"
	"math/big"
	"reflect"
	"regexp"
	"strings"
	"time"

	"github.com/consensys/gnark-crypto/ecc"
	"github.com/consensys/gnark-crypto/ecc/bn254"
	"github.com/consensys/gnark-crypto/ecc/bn254/fp"
	"github.com/consensys/gnark/backend/groth16"
	"verif/harness/ev"
	"verif/harness/ref"
	"worldcoin/gnark-mbu/prover"
)

type c10Case struct {
	Kind string `json:"kind"`          // synthetic | real
	Raw  string `json:"raw_proof_hex"` // A.Raw || B.Raw || C.Raw (256 bytes)
	Mode string `json:"mode,omitempty"`
	Hash string `json:"hash,omitempty"`
	// kind "history": operations on ONE prover.Proof value: S<i> assign proof i to its Proof field,
	// U<i> decode the (independently rendered) JSON of proof i into it, M marshal it
	Raws []string `json:"raw_proofs_hex,omitempty"`
	Ops  []string `json:"ops,omitempty"`
}

// refProofJSON renders the documented JSON form from the eight coordinates (independent of the repository).
func refProofJSON(c [8]*big.Int) []byte {
	h := func(i int) string { return `"0x` + c[i].Text(16) + `"` }
	return []byte(`{"ar":[` + h(0) + `,` + h(1) + `],"bs":[[` + h(2) + `,` + h(3) + `],[` + h(4) + `,` + h(5) + `]],"krs":[` + h(6) + `,` + h(7) + `]}`)
}

// c10History runs an operation history on one value; the value must always behave as the proof it holds.
func c10History(cs *c10Case) (key, msg string, err error) {
	defer func() {
		if r := recover(); r != nil {
			key, msg, err = "panic", fmt.Sprintf("proof JSON code panics: %v", r), nil
		}
	}()
	var gps []groth16.Proof
	var coords [][8]*big.Int
	for _, rs := range cs.Raws {
		raw, err := hex.DecodeString(rs)
		if err != nil {
			return "", "", err
		}
		gp := groth16.NewProof(ecc.BN254)
		if _, err := gp.ReadFrom(bytes.NewReader(raw)); err != nil {
			return "", "", fmt.Errorf("cannot materialise proof: %v", err)
		}
		co, err := proofCoords(gp)
		if err != nil {
			return "", "", err
		}
		gps = append(gps, gp)
		coords = append(coords, co)
	}
	var v prover.Proof
	held := -1
	for step, op := range cs.Ops {
		where := fmt.Sprintf("after %v (step %d)", cs.Ops[:step+1], step)
		switch op[0] {
		case 'S':
			held = int(op[1] - '0')
			v.Proof = gps[held]
		case 'U':
			i := int(op[1] - '0')
			if e := json.Unmarshal(refProofJSON(coords[i]), &v); e != nil {
				return "history-decode", fmt.Sprintf("decoding a proof into a value that was used before fails %s: %v", where, e), nil
			}
			held = i
			got, err := proofCoords(v.Proof)
			if err != nil {
				return "", "", err
			}
			for k := range got {
				if got[k].Cmp(coords[i][k]) != 0 {
					return "history-decode", fmt.Sprintf("value does not hold the decoded proof %s: %s is 0x%s, document says 0x%s", where, slotNames[k], got[k].Text(16), coords[i][k].Text(16)), nil
				}
			}
		case 'M':
			js, e := json.Marshal(&v)
			if e != nil {
				return "history-marshal", fmt.Sprintf("MarshalJSON fails %s: %v", where, e), nil
			}
			var back prover.Proof
			if e := json.Unmarshal(js, &back); e != nil {
				return "history-marshal", fmt.Sprintf("JSON produced %s does not decode: %v", where, e), nil
			}
			got, err := proofCoords(back.Proof)
			if err != nil {
				return "", "", err
			}
			for k := range got {
				if got[k].Cmp(coords[held][k]) != 0 {
					return "history-marshal", fmt.Sprintf("JSON produced %s is not the JSON of the proof the value holds: %s is 0x%s, held proof has 0x%s", where, slotNames[k], got[k].Text(16), coords[held][k].Text(16)), nil
				}
			}
		}
	}
	return "", "", nil
}

// c10Histories: every operation sequence of length <= maxLen over {S0,S1,S2,U0,U1,U2,M} that starts by
// giving the value a proof and contains at least one M.
func c10Histories(raws []string, maxLen int) []c10Case {
	alpha := []string{"M", "S0", "U0", "S1", "U1", "S2", "U2"}
	var out []c10Case
	var rec func(ops []string)
	rec = func(ops []string) {
		if len(ops) >= 2 {
			hasM := false
			for _, o := range ops {
				hasM = hasM || o == "M"
			}
			if hasM && ops[len(ops)-1] == "M" {
				out = append(out, c10Case{Kind: "history", Raws: raws, Ops: append([]string{}, ops...)})
			}
		}
		if len(ops) == maxLen {
			return
		}
		for _, a := range alpha {
			if len(ops) == 0 && a == "M" {
				continue
			}
			rec(append(ops, a))
		}
	}
	rec(nil)
	return out
}

func init() {
	Registry["C10"] = func() {
		ev.Main("C10", "exploration", 150*time.Second, 20*time.Minute, c10Body, func(c *ev.Ctx, raw json.RawMessage) {
			var cs c10Case
			if err := json.Unmarshal(raw, &cs); err != nil {
				c.HarnessError("%v", err)
			}
			key, msg, err := c10Eval(&cs)
			if err != nil {
				c.HarnessError("%v", err)
			}
			fmt.Printf("replay: %s %s\n", key, msg)
			if msg != "" {
				c.Violation(key, msg, cs)
			}
		})
	}
}

var slotNames = [8]string{"A.x", "A.y", "B.x1", "B.x0", "B.y1", "B.y0", "C.x", "C.y"}

// proofCoords reads the eight EVM-order coordinates from gnark's proof struct by reflection.
func proofCoords(p groth16.Proof) ([8]*big.Int, error) {
	var out [8]*big.Int
	v := reflect.ValueOf(p)
	if v.Kind() != reflect.Ptr || v.Elem().Kind() != reflect.Struct {
		return out, fmt.Errorf("unexpected proof type %T", p)
	}
	e := v.Elem()
	ar, ok1 := e.FieldByName("Ar").Interface().(bn254.G1Affine)
	bs, ok2 := e.FieldByName("Bs").Interface().(bn254.G2Affine)
	krs, ok3 := e.FieldByName("Krs").Interface().(bn254.G1Affine)
	if !ok1 || !ok2 || !ok3 {
		return out, fmt.Errorf("unexpected proof fields in %T", p)
	}
	bi := func(x interface{ BigInt(*big.Int) *big.Int }) *big.Int { return x.BigInt(new(big.Int)) }
	out[0], out[1] = bi(&ar.X), bi(&ar.Y)
	out[2], out[3] = bi(&bs.X.A1), bi(&bs.X.A0)
	out[4], out[5] = bi(&bs.Y.A1), bi(&bs.Y.A0)
	out[6], out[7] = bi(&krs.X), bi(&krs.Y)
	return out, nil
}

var hexRe = regexp.MustCompile(`^0x[0-9a-fA-F]+$`)

func shortSlots(c [8]*big.Int) string {
	var s []string
	for i, x := range c {
		if len(x.Bytes()) < 32 {
			s = append(s, slotNames[i])
		}
	}
	if len(s) == 0 {
		return "all coordinates 32 bytes"
	}
	return "short " + strings.Join(s, ",")
}

func c10Eval(cs *c10Case) (key, msg string, err error) {
	if cs.Kind == "history" {
		return c10History(cs)
	}
	defer func() {
		if r := recover(); r != nil {
			key, msg, err = "panic", fmt.Sprintf("proof JSON code panics: %v", r), nil
		}
	}()
	raw, err := hex.DecodeString(cs.Raw)
	if err != nil {
		return "", "", err
	}
	gp := groth16.NewProof(ecc.BN254)
	if _, err := gp.ReadFrom(bytes.NewReader(raw)); err != nil {
		return "", "", fmt.Errorf("cannot materialise proof: %v", err)
	}
	want, err := proofCoords(gp)
	if err != nil {
		return "", "", err
	}
	class := shortSlots(want)
	p := &prover.Proof{Proof: gp}
	js, e := json.Marshal(p)
	if e != nil {
		return "marshal|" + class, "MarshalJSON failed: " + e.Error(), nil
	}
	var doc struct {
		Ar  []string   `json:"ar"`
		Bs  [][]string `json:"bs"`
		Krs []string   `json:"krs"`
	}
	if e := json.Unmarshal(js, &doc); e != nil || len(doc.Ar) != 2 || len(doc.Krs) != 2 || len(doc.Bs) != 2 || len(doc.Bs[0]) != 2 || len(doc.Bs[1]) != 2 {
		return "marshal-shape|" + class, fmt.Sprintf("proof JSON does not have ar[2], bs[2][2], krs[2]: %s", js), nil
	}
	got := []string{doc.Ar[0], doc.Ar[1], doc.Bs[0][0], doc.Bs[0][1], doc.Bs[1][0], doc.Bs[1][1], doc.Krs[0], doc.Krs[1]}
	for i, s := range got {
		if !hexRe.MatchString(s) {
			return "marshal-format|" + class, fmt.Sprintf("coordinate %s is rendered as %q, not a hexadecimal integer", slotNames[i], s), nil
		}
		v, _ := new(big.Int).SetString(s[2:], 16)
		if v.Cmp(want[i]) != 0 {
			return "marshal-order|" + class, fmt.Sprintf("JSON slot %d should be %s=0x%s, is %s", i, slotNames[i], want[i].Text(16), s), nil
		}
	}
	var back prover.Proof
	if e := json.Unmarshal(js, &back); e != nil {
		return "roundtrip|" + class, fmt.Sprintf("decoding the proof's own JSON fails (%s): %v", class, e), nil
	}
	gotBack, err := proofCoords(back.Proof)
	if err != nil {
		return "", "", err
	}
	for i := range want {
		if want[i].Cmp(gotBack[i]) != 0 {
			return "roundtrip|" + class, fmt.Sprintf("decoded proof differs at %s: 0x%s != 0x%s", slotNames[i], gotBack[i].Text(16), want[i].Text(16)), nil
		}
	}
	if cs.Kind == "real" {
		ps := realSystems[cs.Mode]
		h := *bigs(cs.Hash)
		var ve error
		if cs.Mode == "deletion" {
			ve = ps.VerifyDeletion(h, &back)
		} else {
			ve = ps.VerifyInsertion(h, &back)
		}
		if ve != nil {
			return "roundtrip-verify|" + class, "decoded real proof no longer verifies: " + ve.Error(), nil
		}
	}
	return "", "", nil
}

var realSystems = map[string]*prover.ProvingSystem{}
var lastReal = map[string][]byte{}
var lastHash = map[string]*big.Int{}

func c10Body(c *ev.Ctx) {
	quick := c.Quick()
	// ---- synthetic proofs: curve points with controlled coordinate lengths ------
	_, _, g1, g2 := bn254.Generators()
	type rep struct {
		raw   []byte
		class string
	}
	g1reps := map[string]rep{}
	g2reps := map[string]rep{}
	N := 4000
	if !quick {
		N = 40000
	}
	var p1 bn254.G1Jac
	var p2 bn254.G2Jac
	var g1j bn254.G1Jac
	var g2j bn254.G2Jac
	g1j.FromAffine(&g1)
	g2j.FromAffine(&g2)
	p1.Set(&g1j)
	p2.Set(&g2j)
	cls := func(xs ...*big.Int) string {
		s := ""
		for _, x := range xs {
			switch n := len(x.Bytes()); {
			case n == 32:
				s += "L"
			case n == 31:
				s += "s"
			default:
				s += "t" // two or more leading zero bytes
			}
		}
		return s
	}
	for k := 1; k <= N; k++ {
		var a1 bn254.G1Affine
		a1.FromJacobian(&p1)
		r1 := a1.RawBytes()
		k1 := cls(a1.X.BigInt(new(big.Int)), a1.Y.BigInt(new(big.Int)))
		if _, ok := g1reps[k1]; !ok {
			g1reps[k1] = rep{append([]byte{}, r1[:]...), k1}
		}
		var a2 bn254.G2Affine
		a2.FromJacobian(&p2)
		r2 := a2.RawBytes()
		k2 := cls(a2.X.A1.BigInt(new(big.Int)), a2.X.A0.BigInt(new(big.Int)), a2.Y.A1.BigInt(new(big.Int)), a2.Y.A0.BigInt(new(big.Int)))
		if _, ok := g2reps[k2]; !ok {
			g2reps[k2] = rep{append([]byte{}, r2[:]...), k2}
		}
		p1.AddAssign(&g1j)
		p2.AddAssign(&g2j)
	}
	// boundary coordinates: values in [r, p) (r = scalar-field order < p = base-field order) are
	// legitimate coordinates; G1 has cofactor 1, so every curve point with such an x is usable
	{
		P := fp.Modulus()
		var three fp.Element
		three.SetUint64(3)
		addPoint := func(a bn254.G1Affine, label string) {
			if a.IsOnCurve() && a.IsInSubGroup() && !a.IsInfinity() {
				rb := a.RawBytes()
				g1reps[label] = rep{append([]byte{}, rb[:]...), label}
			}
		}
		for bi, base := range []*big.Int{new(big.Int).Sub(P, big.NewInt(1)), new(big.Int).Set(ref.R), new(big.Int).Rsh(new(big.Int).Add(P, ref.R), 1)} {
			for j := int64(0); j < 40; j++ {
				xv := new(big.Int).Sub(base, big.NewInt(j))
				if base.Cmp(ref.R) == 0 {
					xv = new(big.Int).Add(base, big.NewInt(j))
				}
				var x, y2, y fp.Element
				x.SetBigInt(xv)
				y2.Square(&x).Mul(&y2, &x).Add(&y2, &three)
				if y.Sqrt(&y2) == nil {
					continue
				}
				addPoint(bn254.G1Affine{X: x, Y: y}, fmt.Sprintf("x>=r#%d", bi))
				break
			}
		}
		var neg bn254.G1Affine
		neg.Neg(&g1)
		addPoint(neg, "y=p-2") // -G1 = (1, p-2): y in [r, p)
	}
	var cases []c10Case
	slotShort := [8]bool{}
	for ka, a := range g1reps {
		for kb, b := range g2reps {
			for kc, cc := range g1reps {
				raw := append(append(append([]byte{}, a.raw...), b.raw...), cc.raw...)
				cases = append(cases, c10Case{Kind: "synthetic", Raw: hex.EncodeToString(raw)})
				all := ka + kb + kc
				for i := 0; i < 8 && i < len(all) && len(ka) == 2 && len(kc) == 2; i++ {
					if all[i] != 'L' {
						slotShort[i] = true
					}
				}
			}
		}
	}
	c.Logf("synthetic: %d G1 classes, %d G2 classes, %d proofs", len(g1reps), len(g2reps), len(cases))
	nShortSlots := 0
	for _, b := range slotShort {
		if b {
			nShortSlots++
		}
	}
	c.Set("json_slots_exercised_with_short_coordinate", int64(nShortSlots))
	classes := map[string]bool{}
	evals := int64(0)
	for i := range cases {
		key, msg, err := c10Eval(&cases[i])
		if err != nil {
			c.HarnessError("%v", err)
		}
		evals++
		gp := groth16.NewProof(ecc.BN254)
		raw, _ := hex.DecodeString(cases[i].Raw)
		gp.ReadFrom(bytes.NewReader(raw))
		co, _ := proofCoords(gp)
		classes[shortSlots(co)] = true
		if msg != "" {
			c.Violation(key, msg, cases[i])
		}
	}
	c.Sample(cases[0])
	// ---- histories on one value (non-initial states of a prover.Proof) ------------
	{
		raws := []string{cases[0].Raw, cases[len(cases)/2].Raw, cases[len(cases)-1].Raw}
		ml := 4
		if !quick {
			ml = 5
		}
		hs := c10Histories(raws, ml)
		for i := range hs {
			key, msg, err := c10Eval(&hs[i])
			if err != nil {
				c.HarnessError("%v", err)
			}
			evals++
			if msg != "" {
				c.Violation(key, msg, hs[i])
				break
			}
		}
		c.Set("value_histories", int64(len(hs)))
		c.Logf("histories on one Proof value (assign / decode-into / marshal, length <= %d): %d", ml, len(hs))
	}
	// ---- real proofs ------------------------------------------------------------
	modes := []string{"deletion"}
	if !quick {
		modes = append(modes, "insertion")
	}
	realShort := int64(0)
	realN := int64(0)
	for _, mode := range modes {
		var ps *prover.ProvingSystem
		var err error
		if mode == "deletion" {
			ps, err = prover.SetupDeletion(1, 1)
		} else {
			ps, err = prover.SetupInsertion(1, 1)
		}
		if err != nil {
			c.HarnessError("setup: %v", err)
		}
		realSystems[mode] = ps
		maxN := 25
		if !quick {
			maxN = 120
		}
		for i := 0; i < maxN && !c.Expired(); i++ {
			var pr *prover.Proof
			var hash *big.Int
			if mode == "deletion" {
				v := ref.B(int64(i + 1))
				params := prover.DeletionParameters{PreRoot: *v, PostRoot: *v, DeletionIndices: []uint32{2}, IdComms: []big.Int{*ref.B(0)}, MerkleProofs: [][]big.Int{{*ref.B(0)}}}
				hash = ref.KeccakInt(ref.PackDeletion([]uint32{2}, v, v))
				params.InputHash = *hash
				pr, err = ps.ProveDeletion(&params)
			} else {
				t := ref.NewTree(ref.BN, 1)
				cm := ref.B(int64(i + 1))
				params := prover.InsertionParameters{StartIndex: 0, PreRoot: *t.Root(), IdComms: []big.Int{*cm}, MerkleProofs: [][]big.Int{{*t.Proof(0)[0]}}}
				t.Set(0, cm)
				params.PostRoot = *t.Root()
				hash = ref.KeccakInt(ref.PackInsertion(0, &params.PreRoot, &params.PostRoot, []*big.Int{cm}))
				params.InputHash = *hash
				pr, err = ps.ProveInsertion(&params)
			}
			if err != nil {
				c.HarnessError("prove (%s): %v", mode, err)
			}
			if co, e := proofCoords(pr.Proof); e == nil {
				// rendered by the harness (not by the repository's encoder) for the re-randomisation below
				hx := func(x *big.Int) string { return "0x" + x.Text(16) }
				js, _ := json.Marshal(map[string]any{"ar": []string{hx(co[0]), hx(co[1])}, "bs": [][]string{{hx(co[2]), hx(co[3])}, {hx(co[4]), hx(co[5])}}, "krs": []string{hx(co[6]), hx(co[7])}})
				lastReal[mode], lastHash[mode] = js, hash
			}
			var buf bytes.Buffer
			pr.Proof.WriteRawTo(&buf)
			cs := c10Case{Kind: "real", Raw: hex.EncodeToString(buf.Bytes()[:256]), Mode: mode, Hash: hash.String()}
			co, _ := proofCoords(pr.Proof)
			isShort := shortSlots(co) != "all coordinates 32 bytes"
			key, msg, err := c10Eval(&cs)
			if err != nil {
				c.HarnessError("%v", err)
			}
			evals++
			realN++
			classes["real:"+shortSlots(co)] = true
			if isShort {
				realShort++
				c.Sample(cs)
			}
			if msg != "" {
				c.Violation(key, msg, cs)
			}
			if realShort >= 2 && i >= 8 {
				break
			}
		}
	}
	// every slot short in a VALID proof: re-randomise the last real proof of each mode
	for mode, ps := range realSystems {
		if lastReal[mode] == nil {
			continue
		}
		vars, err := proofVariants(ps, lastReal[mode], 4000)
		if err != nil {
			c.HarnessError("proof variants: %v", err)
		}
		for _, v := range vars {
			pr, err := decodeProofIndependentlyV(v.JSON)
			if err != nil {
				c.HarnessError("variant: %v", err)
			}
			var buf bytes.Buffer
			pr.Proof.WriteRawTo(&buf)
			cs := c10Case{Kind: "real", Raw: hex.EncodeToString(buf.Bytes()[:256]), Mode: mode, Hash: lastHash[mode].String()}
			key, msg, err := c10Eval(&cs)
			if err != nil {
				c.HarnessError("%v", err)
			}
			evals++
			realN++
			realShort++
			classes["real-rerandomised:"+strings.Join(v.Short, ",")] = true
			if msg != "" {
				c.Violation(key, msg, cs)
			}
		}
	}
	runPairIsolation(c, libScenarios(c, 0, 1)) // Proof.MarshalJSON / UnmarshalJSON
	c.Set("real_proofs", realN)
	c.Set("real_proofs_with_short_coordinate", realShort)
	c.Set("short_coordinate_seen_in_real_proof", realShort > 0)
	c.Set("evaluations", evals)
	c.Set("distinct_nontrivial", int64(len(classes)))
	c.Set("exhaustive", true)
	c.Set("rule", "synthetic proofs = all combinations (A,B,C) of representative curve points, one per coordinate-length class (32 bytes / 31 bytes / <=30 bytes per coordinate) found among k*G1, k*G2 for k<=N, plus G1 points with a coordinate in [r, p) (x chosen, y solved; -G1); real proofs from a (1,1) system until coordinates with leading zero bytes occurred; oracle: JSON carries the eight coordinates read from gnark's struct fields in EVM order as 0x-hex, decode(encode(p)) == p field by field, decoded real proofs verify; distinct = classes of short-coordinate patterns")
	c.Assume("gnark-crypto's raw point encoding and subgroup checks are trusted to materialise the synthetic proofs")
}

// decodeProofIndependentlyV parses the 8 hex numbers of a proof document without the repository's decoder.
func decodeProofIndependentlyV(body []byte) (*prover.Proof, error) {
	var doc struct {
		Ar  []string   `json:"ar"`
		Bs  [][]string `json:"bs"`
		Krs []string   `json:"krs"`
	}
	if err := json.Unmarshal(body, &doc); err != nil {
		return nil, err
	}
	if len(doc.Ar) != 2 || len(doc.Krs) != 2 || len(doc.Bs) != 2 || len(doc.Bs[0]) != 2 || len(doc.Bs[1]) != 2 {
		return nil, fmt.Errorf("proof JSON does not have the ar[2], bs[2][2], krs[2] shape")
	}
	raw := make([]byte, 0, 256)
	for _, s := range []string{doc.Ar[0], doc.Ar[1], doc.Bs[0][0], doc.Bs[0][1], doc.Bs[1][0], doc.Bs[1][1], doc.Krs[0], doc.Krs[1]} {
		if !strings.HasPrefix(s, "0x") {
			return nil, fmt.Errorf("coordinate %q is not 0x-hex", s)
		}
		v, ok := new(big.Int).SetString(s[2:], 16)
		if !ok || v.BitLen() > 256 {
			return nil, fmt.Errorf("coordinate %q is not a 256-bit hex integer", s)
		}
		raw = append(raw, v.FillBytes(make([]byte, 32))...)
	}
	gp := groth16.NewProof(ecc.BN254)
	if _, err := gp.ReadFrom(bytes.NewReader(raw)); err != nil {
		return nil, err
	}
	return &prover.Proof{Proof: gp}, nil
}
