//go:build verif

package checks

import (
	"encoding/json"
	"fmt"
	"math/big"
	"os"
	"runtime"
	"sort"
	"strings"
	"sync"
	"time"

	"verif/harness/ev"
	"worldcoin/gnark-mbu/prover"
	"worldcoin/gnark-mbu/server"
	"worldcoin/gnark-mbu/verifrt/vhttp"
	"worldcoin/gnark-mbu/verifrt/vsched"
)

const proverAddr, metricsAddr = "localhost:3001", "localhost:9998"

type c14Scenario struct {
	Clients []string `json:"clients"` // each: GET | POST-bad | SCRAPE | POST-valid
	Cycles  int      `json:"cycles"`
	Fine    bool     `json:"statement_level_points"`
	Choices []int    `json:"schedule,omitempty"`
}

func init() {
	Registry["C14"] = func() {
		ev.Main("C14", "model_checking", 200*time.Second, 40*time.Minute, c14Body, func(c *ev.Ctx, raw json.RawMessage) {
			var sc c14Scenario
			if err := json.Unmarshal(raw, &sc); err != nil {
				c.HarnessError("%v", err)
			}
			// replay the recorded schedule twice: identical observations are required before it is believed
			var first string
			for i := 0; i < 2; i++ {
				setup, body, check := c14Run(&sc)()
				s := vsched.Run(vsched.Config{Prefix: sc.Choices, MaxSteps: 20000, Fine: sc.Fine}, setup, body)
				vhttp.Uninstall(s)
				f := s.Fail
				if f == nil {
					f = check(s)
				}
				desc := "ok"
				if f != nil {
					desc = f.Kind + ": " + f.Msg
				}
				fmt.Printf("replay %d: %s\n  trace: %v\n", i, desc, s.Obs)
				if i == 0 {
					first = desc
				} else if desc != first {
					c.HarnessError("schedule does not replay deterministically: %q vs %q", first, desc)
				}
				if i == 1 && f != nil {
					c.Violation("replay", desc, sc)
				}
			}
		})
	}
}

// c14Run builds one execution: driver = what main.go / TestMain do.
func c14Run(sc *c14Scenario) func() (func(*vsched.Sched), func(), func(*vsched.Sched) *vsched.Failure) {
	return func() (func(*vsched.Sched), func(), func(*vsched.Sched) *vsched.Failure) {
		results := make([]*vhttp.Response, len(sc.Clients))
		setup := func(s *vsched.Sched) { vhttp.Install(s) }
		body := func() {
			net := vhttp.Net()
			for i, kind := range sc.Clients {
				i, kind := i, kind
				vsched.GoNamed(fmt.Sprintf("client%d", i), func() {
					switch kind {
					case "GET":
						results[i] = vhttp.Do(fmt.Sprintf("c%d", i), proverAddr, "GET", "/prove", nil)
					case "POST-bad":
						results[i] = vhttp.Do(fmt.Sprintf("c%d", i), proverAddr, "POST", "/prove", []byte(`{"inputHash":"zz"}`))
					case "SCRAPE":
						results[i] = vhttp.Do(fmt.Sprintf("c%d", i), metricsAddr, "GET", "/metrics", nil)
					case "POST-valid":
						results[i] = vhttp.Do(fmt.Sprintf("c%d", i), proverAddr, "POST", "/prove", c14ValidBody)
					}
					vsched.Observe("client%d:%s:%d", i, results[i].Outcome, results[i].Status)
				})
			}
			for cyc := 0; cyc < sc.Cycles; cyc++ {
				cfg := server.Config{ProverAddress: proverAddr, MetricsAddress: metricsAddr, Mode: server.DeletionMode}
				inst := server.Run(&cfg, c14System(sc))
				inst.RequestStop()
				inst.AwaitStop()
				if b := net.BoundAddrs(); len(b) > 0 {
					vsched.Fail("waiting-for-stop returned (cycle %d) while %s still bound: the same addresses cannot be bound again", cyc, strings.Join(b, ", "))
				}
				if k := net.ActiveConns(); k > 0 {
					// main.go returns (the process exits) right after AwaitStop: such a request is dropped
					vsched.Fail("waiting-for-stop returned (cycle %d) while %d accepted request(s) are still being served: the process exits and drops them", cyc, k)
				}
				vsched.Observe("cycle%d:stopped", cyc)
			}
		}
		check := func(s *vsched.Sched) *vsched.Failure {
			for i, r := range results {
				if r == nil {
					return &vsched.Failure{Kind: "invariant", Msg: fmt.Sprintf("client %d never got an outcome", i)}
				}
				switch r.Outcome {
				case "aborted":
					return &vsched.Failure{Kind: "invariant", Msg: fmt.Sprintf("request of client %d (%s) had been accepted but its connection was dropped before the response completed", i, sc.Clients[i])}
				case "complete":
					want := map[string]int{"GET": 405, "POST-bad": 400, "SCRAPE": 200, "POST-valid": 200}[sc.Clients[i]]
					if sc.Clients[i] == "POST-valid" && r.Status == 200 {
						pr, err := decodeProofIndependently(r.Body)
						if err != nil || safeVerify(c14PS, "deletion", c14ValidHash, pr) != nil {
							return &vsched.Failure{Kind: "invariant", Msg: fmt.Sprintf("client %d: the response completed around the stop is not a proof that verifies for the request's input hash", i)}
						}
					}
					if r.Status != want || (want != 405 && len(r.Body) == 0) {
						return &vsched.Failure{Kind: "invariant", Msg: fmt.Sprintf("client %d (%s) got status %d with %d body bytes, expected %d with a body", i, sc.Clients[i], r.Status, len(r.Body), want)}
					}
				}
			}
			return nil
		}
		return setup, body, check
	}
}

// a real proving system for the scenarios in which requests reach the proving stage (deletion (1,1), an
// all-padding batch: the cheapest real proof, ~0.35 s as one atomic step of the handler thread)
var (
	c14PS        *prover.ProvingSystem
	c14ValidBody []byte
	c14ValidHash *big.Int
)

func c14System(sc *c14Scenario) *prover.ProvingSystem {
	for _, k := range sc.Clients {
		if k == "POST-valid" {
			return c14PS
		}
	}
	return nil
}

func c14Body(c *ev.Ctx) {
	quick := c.Quick()
	{
		ps, err := getSystem("deletion", 1, 1, 0)
		if err != nil {
			c.HarnessError("%v", err)
		}
		vb := validDelBatches(1, 1)
		c14PS, c14ValidBody, c14ValidHash = ps, []byte(mustJSON(delDoc(&vb[0]))), bigs(vb[0].Hash)
	}
	if err := schedSelfTest(); err != nil {
		c.HarnessError("scheduler self-test: %v", err)
	}
	c.Set("scheduler_self_test", "passed (lost update needs exactly 1 preemption; lock-order deadlock found at bound 1; both select alternatives explored; pruned == unpruned outcomes)")
	scenarios := []c14Scenario{{Clients: nil, Cycles: 1}, {Clients: []string{"GET"}, Cycles: 1}, {Clients: []string{"POST-bad"}, Cycles: 1}, {Clients: nil, Cycles: 2},
		// two requests that reach the proving stage (real Groth16 proofs): the stop may land while both are in flight
		{Clients: []string{"POST-valid", "POST-valid"}, Cycles: 1}}
	if !quick {
		scenarios = append(scenarios, c14Scenario{Clients: []string{"GET", "POST-bad"}, Cycles: 1}, c14Scenario{Clients: []string{"POST-bad", "SCRAPE"}, Cycles: 1}, c14Scenario{Clients: []string{"GET"}, Cycles: 2})
	}
	var totalExecs, totalStates, totalTrans int64
	outcomes := map[string]int64{}
	exhaustive := true
	per := map[string]any{}
	type plan struct {
		bound int
		fine  bool
		keys  bool // state-key pruning: sound only if every thread's state is a function of shim results; the bounded searches do without it
		scen  []int
	}
	// iterate the deviation bound: 0, 1 preemptions with statement-level points, 2 and
	// unbounded preemptions over shared-object operations, all with state-key pruning
	all := make([]int, len(scenarios))
	for i := range all {
		all[i] = i
	}
	// scenario 4 (requests with real proofs) costs ~0.7 s per complete execution: it gets the plans over
	// shared-object operations only
	cheap := []int{0, 1, 2, 3}
	rest := []int{}
	for i := 5; i < len(scenarios); i++ {
		cheap = append(cheap, i)
		rest = append(rest, i)
	}
	_ = all
	plans := []plan{{0, false, false, []int{0}}, {0, true, true, cheap}, {1, true, true, []int{0, 1}}, {1, false, true, cheap}, {2, false, true, []int{0, 2}}, {-1, false, true, []int{0}}, {1, false, true, []int{4}}}
	if !quick {
		plans = []plan{{0, false, false, []int{0}}, {0, true, true, cheap}, {1, false, true, []int{4}}, {1, true, true, cheap}, {2, false, true, cheap}, {-1, false, true, []int{0, 1, 2, 3}}, {2, true, true, []int{0, 1}}, {2, false, true, []int{4}}, {-1, false, true, rest}}
	}
	runsLeft := 0
	for _, pl := range plans {
		runsLeft += len(pl.scen)
	}
	for _, pl := range plans {
		for _, si := range pl.scen {
			// no single (plan, scenario) may eat the whole budget: each gets at most three times its even
			// share of what is left (on a tree whose extra goroutines make one search explode, the other
			// searches still run)
			dl := c.Deadline
			if rem := time.Until(c.Deadline); rem > 0 && runsLeft > 0 {
				if d := time.Now().Add(3 * rem / time.Duration(runsLeft)); d.Before(dl) {
					dl = d
				}
			}
			runsLeft--
			sc := scenarios[si]
			sc.Fine = pl.fine
			name := fmt.Sprintf("clients=%v cycles=%d", sc.Clients, sc.Cycles)
			pname := fmt.Sprintf("bound=%d fine=%v pruning=%v", pl.bound, pl.fine, pl.keys)
			if c.Expired() || c.NViolations() > 0 {
				if pl.bound < 0 {
					exhaustive = false
				}
				c.Cap(fmt.Sprintf("%s %s not run (budget or earlier violation)", name, pname))
				continue
			}
			var mu sync.Mutex
			nfail := 0
			e := &vsched.Explorer{Bound: pl.bound, Fine: pl.fine, UseKeys: pl.keys, MaxSteps: 20000, Workers: workers(), Deadline: dl, NewRun: c14Run(&sc), AfterRun: vhttp.Uninstall}
			e.OnFailure = func(choices []int, s *vsched.Sched, f *vsched.Failure) {
				if f.Kind == "replay-divergence" {
					c.HarnessError("replay divergence: %s", f.Msg)
				}
				mu.Lock()
				defer mu.Unlock()
				nfail++
				rs := sc
				rs.Choices = choices
				c.Violation(fmt.Sprintf("%s|clients=%v cycles=%d", c14Key(f), sc.Clients, sc.Cycles), f.Kind+": "+f.Msg, rs)
				if nfail >= 3 {
					e.Stop()
				}
			}
			e.Explore()
			c.Logf("%s %s: executions=%d states=%d cut=%d capped=%v maxpoints=%d", name, pname, e.Execs, e.States, e.Cut, e.Capped, e.MaxPoints)
			totalExecs += e.Execs
			totalStates += e.States
			totalTrans += e.Transitions
			for k, v := range e.Outcomes() {
				outcomes[name+" -> "+k] += v
			}
			per[name+" "+pname] = map[string]any{"executions": e.Execs, "states": e.States, "pruned_executions": e.Cut, "complete": !e.Capped}
			if e.Capped {
				if pl.bound < 0 {
					exhaustive = false
				}
				c.Cap("scenario " + name + " " + pname + " hit the budget")
			}
		}
	}
	var ok []string
	for k := range outcomes {
		ok = append(ok, k)
	}
	sort.Strings(ok)
	if len(ok) > 40 {
		ok = ok[:40]
	}
	c.Set("states", totalStates)
	c.Set("transitions", totalTrans)
	c.Set("executions", totalExecs)
	conf := int64(0)
	if c.NViolations() == 0 {
		conf = c14Conformance(c)
	}
	if c.NViolations() == 0 {
		conf += c14E2E(c)
	}
	c.Set("traces_validated_against_impl", conf)
	c.Set("executions_of_real_instrumented_code", totalExecs)
	c.Set("distinct_outcomes", int64(len(outcomes)))
	c.Set("outcome_samples", ok)
	c.Set("scenarios", per)
	c.Set("exhaustive", exhaustive)
	c.Set("preemption_bounds", "0,1 (statement-level points, no pruning), 2 (shared-object operations, no pruning), unbounded (shared-object operations, state-key pruning)")
	c.Sample(scenarios[1])
	c.Set("rule", "every interleaving of the statement-level steps of server/job.go and server/server.go (instrumented from the working tree) with a model of net/http.Server, for a driver doing Run; RequestStop; AwaitStop; (bind check) x 0..2 clients x 1..2 start/stop cycles; executions are real runs of the repository code under a cooperative scheduler; states = (per-thread local history digests, channel/model-server/model-network state); an execution is cut when it reaches an explored state")
	c.Assume("net/http.Server is modelled (vhttp), its steps mirror go1.23 server.go; the model's observable behaviour is compared with the real server on 7 scripted scenarios per run (traces_validated_against_impl counts matched observations), the window being forced with net/http's own testHookServerServe")
	c.Assume("interleavings inside uninstrumented libraries are atomic steps; memory-model effects are outside the scheduler's model")
}

func workers() int {
	if s := os.Getenv("VSCHED_WORKERS"); s != "" {
		var n int
		fmt.Sscan(s, &n)
		if n > 0 {
			return n
		}
	}
	return runtime.NumCPU()
}

func c14Key(f *vsched.Failure) string {
	switch {
	case strings.Contains(f.Msg, "still bound"):
		return "listener-bound-after-AwaitStop"
	case strings.Contains(f.Msg, "address already in use"):
		return "restart-address-in-use"
	case f.Kind == "deadlock":
		return "deadlock"
	case strings.Contains(f.Msg, "still being served"):
		return "AwaitStop-before-requests-complete"
	case strings.Contains(f.Msg, "dropped before the response"):
		return "accepted-request-dropped"
	}
	return f.Kind
}
