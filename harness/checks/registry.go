package checks

import (
	"github.com/consensys/gnark/logger"
	"github.com/rs/zerolog"
	"worldcoin/gnark-mbu/logging"

	"verif/harness/ev"
)

var Registry = map[string]func(){}

func init() {
	logger.Disable()
	// silence the repository's own logger (Logger() hands out a pointer to the package variable)
	*logging.Logger() = logging.Logger().Level(zerolog.Disabled)
}

// libIsolationHook is set by the scheduler build (-tags verif, instrumented prover package): the
// two-thread interleaving exploration of the pure helpers (lib_sched.go). nil in the plain build.
var libIsolationHook func(c *ev.Ctx, keyPrefix string, which []int) (execs, states, trans int64, complete bool)

// runLibIsolation adds the concurrent-callers phase to a sequential check when the build provides it.
func runLibIsolation(c *ev.Ctx, which ...int) {
	if libIsolationHook == nil {
		c.Set("concurrent_callers", map[string]any{"explored": false, "note": "plain build: interleavings of concurrent callers not explored in this run"})
		return
	}
	if c.NViolations() > 0 || c.Expired() {
		return
	}
	e, s, t, done := libIsolationHook(c, "concurrent callers|", which)
	c.Set("concurrent_callers", map[string]any{"explored": true, "helpers": which, "threads": 2, "preemption_bound": 2, "executions": e, "states": s, "transitions": t, "complete": done})
}
