package checks

import (
	"time"

	"github.com/consensys/gnark/logger"
	"github.com/rs/zerolog"
	"worldcoin/gnark-mbu/logging"

	"verif/harness/ev"
)

var Registry = map[string]func(){}

func init() {
	logger.Disable()
	// silence the repository's own logger (Logger() hands out a pointer to the package variable)
	*logging.Logger() = logging.Logger().Level(zerolog.Disabled)
}

// pairScenario: two threads run F(0) and F(1) (the same repository code on different values);
// each result must equal the result of the same call made sequentially.
type pairScenario struct {
	Name string
	F    func(i int) string
	// MaxBound caps the preemption bound (0 = rule of lib_sched.go: 2 for short executions, 1 otherwise);
	// used for scenarios whose executions are expensive (whole circuits, compilations)
	MaxBound int
	// Parallel: executions may run side by side in the process when the instrumented tree has no
	// package-level state (otherwise one at a time, as always)
	Parallel bool
}

// pairIsolationHook is set by the scheduler build (-tags verif, instrumented repository packages):
// exploration of every interleaving of the two threads up to a preemption bound (lib_sched.go).
// nil in the plain build.
var pairIsolationHook func(c *ev.Ctx, keyPrefix string, sc []pairScenario, deadline time.Time) (execs, states, trans int64, complete bool, per map[string]any)

// runPairIsolation adds the concurrent-callers phase to a sequential check when the build provides it.
func runPairIsolation(c *ev.Ctx, sc []pairScenario) {
	if pairIsolationHook == nil {
		c.Set("concurrent_callers", map[string]any{"explored": false, "note": "plain build: interleavings of concurrent callers not explored in this run"})
		return
	}
	if c.NViolations() > 0 {
		return
	}
	// own budget, so that a slow sequential phase cannot starve this one
	budget := 240 * time.Second
	if !c.Quick() {
		budget = 20 * time.Minute
	}
	e, s, t, done, per := pairIsolationHook(c, "concurrent callers|", sc, time.Now().Add(budget))
	c.Set("concurrent_callers", map[string]any{"explored": true, "threads": 2, "executions": e, "states": s, "transitions": t, "complete": done, "scenarios": per})
}
