package checks

import (
	"github.com/consensys/gnark/logger"
	"github.com/rs/zerolog"
	"worldcoin/gnark-mbu/logging"
)

var Registry = map[string]func(){}

func init() {
	logger.Disable()
	// silence the repository's own logger (Logger() hands out a pointer to the package variable)
	*logging.Logger() = logging.Logger().Level(zerolog.Disabled)
}
