package checks

import (
	"github.com/consensys/gnark/logger"
)

var Registry = map[string]func(){}

func init() { logger.Disable() }
