//go:build verif

package checks

import (
	"bytes"
	"context"
	"encoding/json"
	"errors"
	"fmt"
	"net/http"
	"os"
	"os/exec"
	"sort"
	"strings"

	"verif/harness/ev"
	"worldcoin/gnark-mbu/verifrt/vhttp"
	"worldcoin/gnark-mbu/verifrt/vsched"
)

// Conformance of the vhttp model: the server-level scenarios T1..T7 are run on the
// model (scripted, under the scheduler) and on the real net/http.Server
// (cmd/realhttp, real sockets, window forced with net/http's own test hook); the
// observation lists must be identical. R1/R2 run the repository's start/stop
// protocol on the real server and are judged directly.

func modelErr(err error) string {
	switch {
	case err == nil:
		return "nil"
	case errors.Is(err, http.ErrServerClosed):
		return "ErrServerClosed"
	case strings.Contains(err.Error(), "address already in use"):
		return "address-in-use"
	}
	return "error"
}

func modelBound(addr string) string {
	if vhttp.Net().Bound(addr) {
		return "bound"
	}
	return "free"
}

func modelGet(name, addr, path string) string {
	r := vhttp.Do(name, addr, "GET", path, nil)
	switch r.Outcome {
	case "complete":
		return fmt.Sprintf("complete:%d:%s", r.Status, r.Body)
	case "refused":
		return "refused"
	}
	return "dropped"
}

func modelScenarios() map[string][]string {
	out := map[string][]string{}
	run := func(name string, body func(add func(string, ...any))) {
		var o []string
		add := func(f string, a ...any) { o = append(o, fmt.Sprintf(f, a...)) }
		s := vsched.Run(vsched.Config{MaxSteps: 100000}, func(s *vsched.Sched) { vhttp.Install(s) }, func() { body(add) })
		vhttp.Uninstall(s)
		if s.Fail != nil {
			o = append(o, "MODEL-FAILURE "+s.Fail.Kind+": "+s.Fail.Msg)
		}
		out[name] = o
	}
	type gates struct {
		gate, entered *vsched.Chan[int]
	}
	mux := func(g *gates) http.Handler {
		m := http.NewServeMux()
		m.HandleFunc("/ping", func(w http.ResponseWriter, r *http.Request) { w.Write([]byte("pong")) })
		m.HandleFunc("/slow", func(w http.ResponseWriter, r *http.Request) {
			g.entered.Send(1)
			g.gate.Recv()
			w.Write([]byte("slow-done"))
		})
		return m
	}
	newGates := func() *gates { return &gates{vsched.NewChan[int](0), vsched.NewChan[int](4)} }
	const addr = "127.0.0.1:7001"
	run("T1 shutdown-before-listen", func(add func(string, ...any)) {
		s := &vhttp.Server{Addr: addr, Handler: mux(newGates())}
		add("shutdown=%s", modelErr(s.Shutdown(context.Background())))
		add("listen=%s", modelErr(s.ListenAndServe()))
		add("addr=%s", modelBound(addr))
	})
	run("T2 shutdown-in-window", func(add func(string, ...any)) {
		inWindow, release := vsched.NewChan[int](0), vsched.NewChan[int](0)
		vhttp.Net().TestHookServe = func(*vhttp.Server) { inWindow.Close(); release.Recv() }
		s := &vhttp.Server{Addr: addr, Handler: mux(newGates())}
		ret := vsched.NewChan[error](1)
		vsched.GoNamed("las", func() { ret.Send(s.ListenAndServe()) })
		inWindow.Recv()
		add("in-window addr=%s", modelBound(addr))
		add("shutdown=%s", modelErr(s.Shutdown(context.Background())))
		add("after-shutdown addr=%s", modelBound(addr))
		release.Close()
		add("listen=%s", modelErr(ret.Recv()))
		add("addr=%s", modelBound(addr))
	})
	run("T3 idle-shutdown", func(add func(string, ...any)) {
		s := &vhttp.Server{Addr: addr, Handler: mux(newGates())}
		ret := vsched.NewChan[error](1)
		vsched.GoNamed("las", func() { ret.Send(s.ListenAndServe()) })
		vhttp.WaitAccepting(addr)
		add("request=%s", modelGet("c1", addr, "/ping"))
		add("shutdown=%s", modelErr(s.Shutdown(context.Background())))
		add("listen=%s", modelErr(ret.Recv()))
		add("addr=%s", modelBound(addr))
		add("request-after=%s", modelGet("c2", addr, "/ping"))
		add("listen-again=%s", modelErr(s.ListenAndServe()))
	})
	run("T4 in-flight-shutdown", func(add func(string, ...any)) {
		g := newGates()
		s := &vhttp.Server{Addr: addr, Handler: mux(g)}
		ret := vsched.NewChan[error](1)
		vsched.GoNamed("las", func() { ret.Send(s.ListenAndServe()) })
		vhttp.WaitAccepting(addr)
		res := vsched.NewChan[string](1)
		vsched.GoNamed("client", func() { res.Send(modelGet("c1", addr, "/slow")) })
		g.entered.Recv()
		sd := vsched.NewChan[error](1)
		vsched.GoNamed("shutdown", func() { sd.Send(s.Shutdown(context.Background())) })
		add("listen=%s", modelErr(ret.Recv()))
		add("while-in-flight addr=%s", modelBound(addr))
		if sd.Len() > 0 {
			add("shutdown-returned-early=%s", modelErr(sd.Recv()))
		} else {
			add("shutdown-pending")
		}
		g.gate.Send(1)
		add("request=%s", res.Recv())
		add("shutdown=%s", modelErr(sd.Recv()))
	})
	run("T5 address-in-use", func(add func(string, ...any)) {
		a := &vhttp.Server{Addr: addr, Handler: mux(newGates())}
		ret := vsched.NewChan[error](1)
		vsched.GoNamed("las", func() { ret.Send(a.ListenAndServe()) })
		vhttp.WaitAccepting(addr)
		b := &vhttp.Server{Addr: addr, Handler: mux(newGates())}
		add("second-listen=%s", modelErr(b.ListenAndServe()))
		a.Shutdown(context.Background())
		ret.Recv()
		add("addr=%s", modelBound(addr))
	})
	run("T6 close-in-flight", func(add func(string, ...any)) {
		g := newGates()
		s := &vhttp.Server{Addr: addr, Handler: mux(g)}
		ret := vsched.NewChan[error](1)
		vsched.GoNamed("las", func() { ret.Send(s.ListenAndServe()) })
		vhttp.WaitAccepting(addr)
		res := vsched.NewChan[string](1)
		vsched.GoNamed("client", func() { res.Send(modelGet("c1", addr, "/slow")) })
		g.entered.Recv()
		add("close=%s", modelErr(s.Close()))
		add("listen=%s", modelErr(ret.Recv()))
		add("request=%s", res.Recv())
		add("addr=%s", modelBound(addr))
		g.gate.Send(1)
	})
	run("T7 backlog-in-window", func(add func(string, ...any)) {
		inWindow, release := vsched.NewChan[int](0), vsched.NewChan[int](0)
		vhttp.Net().TestHookServe = func(*vhttp.Server) { inWindow.Close(); release.Recv() }
		s := &vhttp.Server{Addr: addr, Handler: mux(newGates())}
		ret := vsched.NewChan[error](1)
		vsched.GoNamed("las", func() { ret.Send(s.ListenAndServe()) })
		inWindow.Recv()
		res := vsched.NewChan[string](1)
		vsched.GoNamed("a-client", func() { res.Send(modelGet("c1", addr, "/ping")) })
		vsched.Sync("let the client connect") // the client thread sorts first and queues its connection
		s.Shutdown(context.Background())
		release.Close()
		add("listen=%s", modelErr(ret.Recv()))
		r := res.Recv()
		if r != "complete:200:pong" {
			r = "not-served"
		}
		add("request=%s", r)
	})
	return out
}

// c14Conformance returns the number of observations validated against the real server.
func c14Conformance(c *ev.Ctx) int64 {
	bin := os.Getenv("VERIF_REALHTTP")
	if bin == "" {
		c.Cap("real net/http conformance binary not built")
		return 0
	}
	var so, se bytes.Buffer
	cmd := exec.Command(bin)
	cmd.Stdout, cmd.Stderr = &so, &se
	if err := cmd.Run(); err != nil {
		// the start function panics on 'address already in use' etc.: that is a verdict about the repository
		if strings.Contains(se.String(), "address already in use") {
			c.Violation("real-net/http|restart-address-in-use", "on the real net/http server a start/stop cycle on the same addresses fails: "+tailStr(se.Bytes()), nil)
			return 0
		}
		c.HarnessError("realhttp: %v\n%s", err, tailStr(se.Bytes()))
	}
	var real map[string][]string
	if err := json.Unmarshal(so.Bytes(), &real); err != nil {
		c.HarnessError("realhttp output: %v", err)
	}
	model := modelScenarios()
	var names []string
	for k := range model {
		names = append(names, k)
	}
	sort.Strings(names)
	var n int64
	for _, k := range names {
		if fmt.Sprint(model[k]) != fmt.Sprint(real[k]) {
			// a model/implementation mismatch is a bug of the machinery, never a property verdict
			c.HarnessError("vhttp model disagrees with the real net/http.Server on %s:\n model: %v\n real:  %v", k, model[k], real[k])
		}
		n += int64(len(model[k]))
	}
	c.Set("conformance_scenarios", names)
	// the repository's protocol on the real server
	if r := real["R1 repo-stop-in-window"]; len(r) != 1 || r[0] != "await-returned-after-start-returned prover=free metrics=free" {
		c.Violation("listener-bound-after-AwaitStop|real net/http", fmt.Sprintf("real net/http, stop forced between net.Listen and listener registration: %v", r), map[string]any{"scenario": "R1", "observations": r})
	} else {
		n++
	}
	for _, o := range real["R2 repo-two-cycles"] {
		if !(strings.HasSuffix(o, "request=405") || strings.HasSuffix(o, "prover=free metrics=free")) {
			c.Violation("restart|real net/http", fmt.Sprintf("real net/http, two start/stop cycles on the same addresses: %v", real["R2 repo-two-cycles"]), map[string]any{"scenario": "R2", "observations": real["R2 repo-two-cycles"]})
			break
		}
		n++
	}
	c.Sample(map[string]any{"conformance T2 (model == real)": model["T2 shutdown-in-window"]})
	return n
}
