package checks

// Write-fault enumeration for C11: a proving-system file is only as good as the writer's report about it.
// For a structurally identical small system EVERY Write call of the serialisation, and for a real (1,2)
// system the first/last calls and every call at which the write size changes, is made to fail in three
// ways (once with an error; once as a short write; from then on for ever); the writer must then either
// report an error or have produced exactly the complete file (which reloads). Plus the CLI writing its
// keys file to a device that is full.

import (
	"bytes"
	"crypto/sha256"
	"errors"
	"fmt"
	"io"
	"os"
	"sync/atomic"
	"time"

	"github.com/consensys/gnark-crypto/ecc"
	"github.com/consensys/gnark/backend/groth16"
	"github.com/consensys/gnark/frontend"
	"github.com/consensys/gnark/frontend/cs/r1cs"

	"verif/harness/ev"
	"verif/harness/par"
	"worldcoin/gnark-mbu/prover"
)

type faultWriter struct {
	buf    bytes.Buffer
	call   int
	failAt int
	kind   string // once | short | forever
}

var errNoSpace = errors.New("no space left on device (injected)")

func (w *faultWriter) Write(p []byte) (int, error) {
	k := w.call
	w.call++
	if k == w.failAt || (w.kind == "forever" && k > w.failAt) {
		switch w.kind {
		case "short":
			n := len(p) / 2
			w.buf.Write(p[:n])
			return n, io.ErrShortWrite
		default:
			return 0, errNoSpace
		}
	}
	return w.buf.Write(p)
}

type c11Fault struct {
	System string `json:"system"` // small | insertion | deletion
	Format string `json:"format"`
	Call   int    `json:"failing_write_call"`
	Kind   string `json:"fault"`
}

func c11FaultEval(f *c11Fault, ps *prover.ProvingSystem, want []byte) (msg string) {
	defer func() {
		if r := recover(); r != nil {
			msg = fmt.Sprintf("writer panics when write call %d fails (%s): %v", f.Call, f.Kind, r)
		}
	}()
	w := &faultWriter{failAt: f.Call, kind: f.Kind}
	var err error
	if f.Format == "raw" {
		_, err = ps.WriteRawTo(w)
	} else {
		_, err = ps.WriteTo(w)
	}
	if err != nil {
		return ""
	}
	if w.call <= f.Call {
		return "" // the fault was never reached
	}
	if bytes.Equal(w.buf.Bytes(), want) {
		return "" // the writer made up for the failed call: the file is complete
	}
	// (the damaged file is not handed to the reader here: a hole shifts length prefixes, and a reader that
	// trusts them may try to allocate more memory than the machine has)
	return fmt.Sprintf("writing the %s system in the %s format reports success although write call %d failed (%s): the file has %d of %d bytes and is not the complete file", f.System, f.Format, f.Call, f.Kind, w.buf.Len(), len(want))
}

func c11WriteFaults(c *ev.Ctx, quick bool) {
	var nFaults, nReported int64
	run := func(system string, ps *prover.ProvingSystem, every bool) {
		for _, format := range []string{"compressed", "raw"} {
			var cw countingWriter
			var ref bytes.Buffer
			if format == "raw" {
				ps.WriteRawTo(&cw)
				ps.WriteRawTo(&ref)
			} else {
				ps.WriteTo(&cw)
				ps.WriteTo(&ref)
			}
			n := len(cw.offs)
			calls := map[int]bool{}
			prev := -1
			for i := 0; i < n; i++ {
				sz := cw.n - cw.offs[i]
				if i+1 < n {
					sz = cw.offs[i+1] - cw.offs[i]
				}
				if every || i < 12 || i >= n-12 || sz != prev {
					calls[i] = true
					if i > 0 {
						calls[i-1] = true
					}
				}
				prev = sz
			}
			var list []c11Fault
			for k := range calls {
				for _, kind := range []string{"once", "short", "forever"} {
					list = append(list, c11Fault{system, format, k, kind})
				}
			}
			c.Logf("write faults: %s/%s: %d write calls, %d fault points x 3 kinds", system, format, n, len(calls))
			want := ref.Bytes()
			par.For(len(list), func(i int) {
				if msg := c11FaultEval(&list[i], ps, want); msg != "" {
					c.Violation(fmt.Sprintf("write-fault|%s|%s|%s", system, format, list[i].Kind), msg, list[i])
				} else {
					atomic.AddInt64(&nReported, 1)
				}
				atomic.AddInt64(&nFaults, 1)
			}, func() bool { return c.Expired() || c.NViolations() >= 5 })
		}
	}
	if _, err := c15Bytes("small", "raw"); err != nil {
		c.HarnessError("%v", err)
	}
	run("small", c15Small, true)
	ps, err := getSystem("deletion", 1, 2, 0)
	if err != nil {
		c.HarnessError("%v", err)
	}
	run("deletion", ps, !quick)
	if !quick {
		if ps, err = getSystem("insertion", 1, 2, 0); err == nil {
			run("insertion", ps, false)
		}
	}
	c.Set("write_faults_injected", nFaults)
	c.Set("write_faults_reported_or_harmless", nReported)
	// CLI: the keys file goes to a device that is full (every write fails with ENOSPC)
	in := tmpName("c11full")
	defer os.Remove(in)
	var buf bytes.Buffer
	ps.WriteTo(&buf)
	if err := os.WriteFile(in, buf.Bytes(), 0o644); err != nil {
		c.HarnessError("%v", err)
	}
	res, err := runCLI(nil, 5*time.Minute, "convert-to-raw", "--input", in, "--output", "/dev/full")
	if err == nil && !res.TimedOut && res.Exit == 0 {
		c.Violation("write-fault|cli-convert-to-raw", "convert-to-raw exits 0 although every write to its output failed (no space left on device)", nil)
	}
}

func c11ReplayFault(c *ev.Ctx, f *c11Fault) {
	var ps *prover.ProvingSystem
	if f.System == "small" {
		if _, err := c15Bytes("small", "raw"); err != nil {
			c.HarnessError("%v", err)
		}
		ps = c15Small
	} else {
		var err error
		if ps, err = getSystem(f.System, 1, 2, 0); err != nil {
			c.HarnessError("%v", err)
		}
	}
	var ref bytes.Buffer
	if f.Format == "raw" {
		ps.WriteRawTo(&ref)
	} else {
		ps.WriteTo(&ref)
	}
	msg := c11FaultEval(f, ps, ref.Bytes())
	fmt.Println("replay:", msg)
	if msg != "" {
		c.Violation("write-fault|"+f.System+"|"+f.Format+"|"+f.Kind, msg, f)
	}
}

type dummyCircuit2 struct {
	X    frontend.Variable `gnark:",public"`
	Y, Z frontend.Variable
}

func (c *dummyCircuit2) Define(api frontend.API) error {
	a := api.Mul(c.Y, c.Z)
	b := api.Mul(a, a)
	api.AssertIsEqual(api.Add(api.Mul(b, c.Y), c.Z), c.X)
	return nil
}

// c11Pairs: two goroutines write two DIFFERENT proving systems at the same time (both formats): each output
// must be byte-identical to what the same call writes alone (and therefore reload to its own system).
func c11Pairs() []pairScenario {
	if _, err := c15Bytes("small", "raw"); err != nil {
		return nil
	}
	ccs, err := frontend.Compile(ecc.BN254.ScalarField(), r1cs.NewBuilder, &dummyCircuit2{})
	if err != nil {
		return nil
	}
	pk, vk, err := groth16.Setup(ccs)
	if err != nil {
		return nil
	}
	other := &prover.ProvingSystem{TreeDepth: 7, BatchSize: 3, ProvingKey: pk, VerifyingKey: vk, ConstraintSystem: ccs}
	sys := []*prover.ProvingSystem{c15Small, other}
	mk := func(name string, raw [2]bool) pairScenario {
		return pairScenario{Name: name, F: func(i int) (out string) {
			defer func() {
				if r := recover(); r != nil {
					out = fmt.Sprintf("panic: %v", r)
				}
			}()
			var buf bytes.Buffer
			var err error
			if raw[i] {
				_, err = sys[i].WriteRawTo(&buf)
			} else {
				_, err = sys[i].WriteTo(&buf)
			}
			if err != nil {
				return "error: " + err.Error()
			}
			h := sha256.Sum256(buf.Bytes())
			return fmt.Sprintf("%d bytes sha256 %x", buf.Len(), h[:8])
		}}
	}
	return []pairScenario{mk("ProvingSystem.WriteTo of two different systems", [2]bool{false, false}), mk("WriteRawTo next to WriteTo of two different systems", [2]bool{true, false})}
}
