package checks

import (
	"encoding/json"
	"fmt"
	"math/big"
	"sync"
	"time"

	"verif/harness/ev"
	"verif/harness/gad"
	"verif/harness/r1csmc"
	"verif/harness/ref"
)

type c05Case struct {
	Kind string `json:"kind"` // engine-p2 | engine-p1 | seq | tiny-p2 | tiny-p1
	P    string `json:"p"`
	A    string `json:"a"`
	B    string `json:"b,omitempty"`
	Ops  []int  `json:"ops,omitempty"`
	Bump int    `json:"bump"` // -1: present reference outputs; i>=0: output i is reference+1 (must reject)
}

func init() {
	Registry["C05"] = func() {
		ev.Main("C05", "exploration", 120*time.Second, 30*time.Minute, c05Body, func(c *ev.Ctx, raw json.RawMessage) {
			var cs c05Case
			if err := json.Unmarshal(raw, &cs); err != nil {
				c.HarnessError("%v", err)
			}
			got, want, err := c05Eval(&cs, nil, nil)
			if err != nil {
				c.HarnessError("%v", err)
			}
			fmt.Printf("replay: got=%s want=%s\n", got, want)
			if got != want {
				c.Violation("replay", fmt.Sprintf("got %s, want %s", got, want), cs)
			}
		})
	}
}

var fieldCache sync.Map

func fieldFor(p string) *ref.Field {
	if p == "" || p == ref.R.String() {
		return ref.BN
	}
	if f, ok := fieldCache.Load(p); ok {
		return f.(*ref.Field)
	}
	f, _ := fieldCache.LoadOrStore(p, ref.NewField(bigs(p)))
	return f.(*ref.Field)
}

var tinyPos2, tinyPos1 *r1csmc.Sys[uint64, r1csmc.Small]

func c05Eval(cs *c05Case, ts *tinyStats, _ *bnStats) (string, string, error) {
	f := fieldFor(cs.P)
	a := bigs(cs.A)
	var b *big.Int
	if cs.B != "" {
		b = bigs(cs.B)
	}
	bump := func(x *big.Int, i int) *big.Int {
		if cs.Bump == i {
			return f.Mod(new(big.Int).Add(x, ref.B(1)))
		}
		return x
	}
	want := "accept"
	if cs.Bump >= 0 {
		want = "reject"
	}
	verdict := func(e error) string {
		if e == nil {
			return "accept"
		}
		return "reject"
	}
	switch cs.Kind {
	case "engine-p2":
		return verdict(gad.Solved(&gad.Pos2{}, &gad.Pos2{A: a, B: b, Out: bump(f.H2(a, b), 0)}, f.P)), want, nil
	case "engine-p1":
		return verdict(gad.Solved(&gad.Pos1{}, &gad.Pos1{In: a, Out: bump(f.H1(a), 0)}, f.P)), want, nil
	case "seq":
		outs := make([]*big.Int, len(cs.Ops))
		for i, op := range cs.Ops {
			switch op {
			case 0:
				outs[i] = f.H2(a, b)
			case 1:
				outs[i] = f.H2(b, a)
			case 2:
				outs[i] = f.H2(a, a)
			case 3:
				outs[i] = f.H1(a)
			case 4:
				outs[i] = f.H1(b)
			}
			outs[i] = bump(outs[i], i)
		}
		return verdict(gad.Solved(&gad.PosSeq{Out: gad.Vars(len(cs.Ops)), Ops: cs.Ops}, &gad.PosSeq{A: a, B: b, Out: fv(outs)}, f.P)), want, nil
	case "tiny-p2":
		outs, err := tinyRun(tinyPos2, map[string]uint64{"A": a.Uint64(), "B": b.Uint64()}, "Out", ts)
		if err != nil {
			return "", "", err
		}
		return fmt.Sprint(outs), fmt.Sprintf("[%d]", f47.H2(a, b).Uint64()), nil
	case "tiny-p1":
		outs, err := tinyRun(tinyPos1, map[string]uint64{"In": a.Uint64()}, "Out", ts)
		if err != nil {
			return "", "", err
		}
		return fmt.Sprint(outs), fmt.Sprintf("[%d]", f47.H1(a).Uint64()), nil
	}
	return "", "", fmt.Errorf("unknown kind %q", cs.Kind)
}

func c05Body(c *ev.Ctx) {
	r := &caseRunner{c: c, outcomes: map[string]int64{}}
	quick := c.Quick()
	var err error
	if tinyPos2, err = r1csmc.CompileTiny(&gad.Pos2{}); err != nil {
		c.Violation("compile|Poseidon2", fmt.Sprintf("the Poseidon2 gadget cannot be compiled: %.300s", err), nil)
		r.finish("C05")
		return
	}
	if tinyPos1, err = r1csmc.CompileTiny(&gad.Pos1{}); err != nil {
		c.Violation("compile|Poseidon1", fmt.Sprintf("the Poseidon1 gadget cannot be compiled: %.300s", err), nil)
		r.finish("C05")
		return
	}
	c.Set("poseidon2_r1cs_constraints", int64(len(tinyPos2.Cons)))
	c.Set("poseidon2_hint_sites", int64(len(tinyPos2.Sites)))
	R := ref.R.String()
	FE := fieldAlphabet(c.Seed, false)
	{
		seen := map[string]bool{}
		for _, v := range FE {
			seen[v.String()] = true
		}
		for k := 0; k <= 253; k++ {
			v := ref.Pow2(k)
			if !seen[v.String()] {
				FE = append(FE, v)
			}
		}
	}
	// (a) BN254 pairs / singletons against iden3
	var cases []c05Case
	for i, a := range FE {
		cases = append(cases, c05Case{Kind: "engine-p1", P: R, A: a.String(), Bump: -1}, c05Case{Kind: "engine-p1", P: R, A: a.String(), Bump: 0})
		for j, b := range FE {
			cases = append(cases, c05Case{Kind: "engine-p2", P: R, A: a.String(), B: b.String(), Bump: -1})
			if (i+j)%5 == 0 {
				cases = append(cases, c05Case{Kind: "engine-p2", P: R, A: a.String(), B: b.String(), Bump: 0})
			}
		}
	}
	runCases(r, "BN254 Poseidon1/Poseidon2 gadgets (engine) vs iden3 over the field alphabet", cases, c05Eval)
	// (b) call histories inside one circuit
	cases = nil
	pairs := [][2]*big.Int{{ref.B(0), ref.B(0)}, {ref.B(0), ref.B(1)}, {ref.B(1), ref.B(2)}, {new(big.Int).Sub(ref.R, ref.B(1)), ref.B(1)}, {FE[len(FE)-1], FE[len(FE)-2]}, {ref.B(7), ref.B(7)}, {ref.Pow2(128), new(big.Int).Sub(ref.R, ref.B(2))}, {ref.B(2), ref.B(1)}, {FE[len(FE)-2], ref.B(0)}}
	var seqs [][]int
	for a := 0; a < 5; a++ {
		seqs = append(seqs, []int{a})
		for b := 0; b < 5; b++ {
			seqs = append(seqs, []int{a, b})
			for d := 0; d < 5; d++ {
				seqs = append(seqs, []int{a, b, d})
			}
		}
	}
	for pi, pr := range pairs {
		if quick && pi >= 5 {
			break
		}
		for _, s := range seqs {
			cases = append(cases, c05Case{Kind: "seq", P: R, A: pr[0].String(), B: pr[1].String(), Ops: s, Bump: -1})
			cases = append(cases, c05Case{Kind: "seq", P: R, A: pr[0].String(), B: pr[1].String(), Ops: s, Bump: len(s) - 1})
		}
	}
	runCases(r, "BN254 all call sequences (<=3) of Poseidon gadgets on shared variables inside one circuit", cases, c05Eval)
	// (c) whole small fields against the textbook model
	cases = nil
	primes := []int64{5, 7, 11, 13}
	if !quick {
		primes = append(primes, 17, 31, 61, 127)
	}
	for _, p := range primes {
		ps := fmt.Sprint(p)
		for a := int64(0); a < p; a++ {
			cases = append(cases, c05Case{Kind: "engine-p1", P: ps, A: fmt.Sprint(a), Bump: -1}, c05Case{Kind: "engine-p1", P: ps, A: fmt.Sprint(a), Bump: 0})
			for b := int64(0); b < p; b++ {
				cases = append(cases, c05Case{Kind: "engine-p2", P: ps, A: fmt.Sprint(a), B: fmt.Sprint(b), Bump: -1}, c05Case{Kind: "engine-p2", P: ps, A: fmt.Sprint(a), B: fmt.Sprint(b), Bump: 0})
			}
		}
	}
	runCases(r, "whole small prime fields: every pair, engine vs textbook Poseidon (round structure)", cases, c05Eval)
	// (d) compiled R1CS over F_47: every pair, complete search, set of reachable outputs
	cases = nil
	for a := int64(0); a < 47; a++ {
		cases = append(cases, c05Case{Kind: "tiny-p1", P: "47", A: fmt.Sprint(a), Bump: -1})
		for b := int64(0); b < 47; b++ {
			cases = append(cases, c05Case{Kind: "tiny-p2", P: "47", A: fmt.Sprint(a), B: fmt.Sprint(b), Bump: -1})
		}
	}
	runCases(r, "compiled Poseidon R1CS over F_47: all pairs, complete search (output set must be exactly the reference)", cases, c05Eval)
	// (e) fault, then reuse: definitions aborted inside the gadget (recovered by gnark / by the harness), then
	// valid definitions in the same goroutine: the hash must not depend on what an aborted definition left behind
	{
		abort := func() {
			defer func() { recover() }()
			gad.Solved(&gad.PosAbort{}, &gad.PosAbort{A: 3}, ref.R)
		}
		var after []c05Case
		for i := 0; i < 12; i++ {
			after = append(after, c05Case{Kind: "engine-p1", P: R, A: FE[i%len(FE)].String(), Bump: -1}, c05Case{Kind: "engine-p2", P: R, A: FE[(i+1)%len(FE)].String(), B: FE[(2*i+3)%len(FE)].String(), Bump: -1})
		}
		bad := 0
		for i := range after {
			abort()
			got, want, err := c05Eval(&after[i], nil, nil)
			if err != nil {
				c.HarnessError("%v", err)
			}
			if got != want && bad == 0 {
				bad++
				c.Violation("after-aborted-definition|"+after[i].Kind, fmt.Sprintf("after a definition that was aborted inside the Poseidon gadget, a valid %s in the same process: implementation %s, reference %s", after[i].Kind, got, want), after[i])
			}
		}
		c.Set("valid_definitions_after_an_aborted_one", int64(len(after)))
	}
	runPairIsolation(c, append(c05Pairs(), pairScenario{Name: "aborted Poseidon2 definition then a valid one, next to a valid one", F: func(i int) string {
		if i == 0 {
			func() {
				defer func() { recover() }()
				gad.Solved(&gad.PosAbort{}, &gad.PosAbort{A: 3}, ref.R)
			}()
		}
		cs := c05Case{Kind: "engine-p2", P: R, A: fmt.Sprint(5 + i), B: "9", Bump: -1}
		got, want, err := c05Eval(&cs, nil, nil)
		if err != nil {
			return "error: " + err.Error()
		}
		return "got=" + got + " want=" + want
	}}))
	r.finish("C05")
	c.Set("rule", "cases = (inputs, presented output); BN254: ordered pairs and singletons of the field alphabet vs iden3 poseidon.Hash; call sequences of <=3 gadget calls sharing variables; small primes: all pairs vs a textbook Poseidon (4 full, RP partial with S-box on element 0, 4 full); presented output = reference (accept) or reference+1 (reject); non-trivial = accept cases")
	c.Assume("'all field elements' on BN254 is checked on the alphabet (boundaries, all byte lengths, powers of two in thorough, 2 seeded values), not proved as a polynomial identity")
}
