package checks

import (
	"encoding/json"
	"fmt"
	"math/big"
	"strings"
	"sync"
	"time"

	"verif/harness/ev"
	"verif/harness/par"
	"verif/harness/ref"
	"worldcoin/gnark-mbu/poseidon_tree"
)

// C18: off-chain tree == full recomputation after any history (seqmc: every
// history up to a length, replayed on a fresh real tree, compared with a
// cache-free reference).

type c18Op struct {
	Index uint64 `json:"index"`
	Value string `json:"value"`
}
type c18Case struct {
	Depth int     `json:"depth"`
	Ops   []c18Op `json:"ops"`
}

func init() {
	Registry["C18"] = func() {
		ev.Main("C18", "model_checking", 300*time.Second, 30*time.Minute, c18Body, func(c *ev.Ctx, raw json.RawMessage) {
			var cs c18Case
			if err := json.Unmarshal(raw, &cs); err != nil {
				c.HarnessError("%v", err)
			}
			if msg := c18Run(cs, true); msg != "" {
				c.Violation("replay", msg, cs)
			}
		})
	}
}

func bigs(s string) *big.Int { v, _ := new(big.Int).SetString(s, 0); return v }

// c18Run replays the history on a fresh real tree and a fresh reference; checks
// every step if all is set, else only the last one (prefixes are histories of
// their own).
func c18Run(cs c18Case, all bool) (msg string) {
	defer func() {
		if r := recover(); r != nil {
			msg = fmt.Sprintf("panic: %v", r)
		}
	}()
	tree := poseidon_tree.NewTree(cs.Depth)
	var rt interface {
		Root() *big.Int
	}
	var dense *ref.Tree
	var sparse *ref.Sparse
	if cs.Depth <= 4 {
		dense = ref.NewTree(ref.BN, cs.Depth)
		rt = dense
	} else {
		sparse = ref.NewSparse(ref.BN, cs.Depth)
		rt = sparse
	}
	r0 := tree.Root()
	if r0.Cmp(rt.Root()) != 0 {
		return "empty tree root differs from recomputation"
	}
	for k, op := range cs.Ops {
		check := all || k == len(cs.Ops)-1
		var v *big.Int
		switch {
		case op.Value == "@root": // the current root written as a leaf value
			v = rt.Root()
		case strings.HasPrefix(op.Value, "@empty"): // hash of an empty subtree of the given height
			h := 0
			fmt.Sscan(op.Value[6:], &h)
			v = new(big.Int)
			for i := 0; i < h; i++ {
				v = ref.BN.H2(v, v)
			}
		case strings.HasPrefix(op.Value, "@node"): // current value of the sibling subtree one level up
			if dense != nil && cs.Depth >= 1 {
				lv := dense.Proof(int(op.Index))
				v = lv[0]
			} else {
				v = big.NewInt(3)
			}
		default:
			v = bigs(op.Value)
		}
		var prevRoot, old *big.Int
		if check {
			prevRoot = rt.Root()
			if dense != nil {
				old = new(big.Int).Set(dense.Leaves[op.Index])
			} else if o, ok := sparse.Leaves[op.Index]; ok {
				old = o
			} else {
				old = new(big.Int)
			}
		}
		path := tree.Update(int(op.Index), *v)
		if dense != nil {
			dense.Set(int(op.Index), v)
		} else {
			sparse.Set(op.Index, v)
		}
		if !check {
			continue
		}
		root := tree.Root()
		want := rt.Root()
		if root.Cmp(want) != 0 {
			return fmt.Sprintf("step %d: Root()=%s, recomputed=%s", k, root.Text(16), want.Text(16))
		}
		if len(path) != cs.Depth {
			return fmt.Sprintf("step %d: path length %d != depth", k, len(path))
		}
		pp := make([]*big.Int, len(path))
		for i := range path {
			pp[i] = new(big.Int).Set(&path[i])
		}
		if ref.BN.Path(old, pp, op.Index).Cmp(prevRoot) != 0 {
			return fmt.Sprintf("step %d: returned path does not authenticate previous value against previous root", k)
		}
		if ref.BN.Path(v, pp, op.Index).Cmp(want) != 0 {
			return fmt.Sprintf("step %d: returned path does not authenticate new value against new root", k)
		}
	}
	return ""
}

func c18Body(c *ev.Ctx) {
	rm1 := new(big.Int).Sub(ref.R, big.NewInt(1)).String()
	// values include hashes that occur INSIDE the tree (empty-subtree hashes, the current
	// root, the current sibling): a leaf that equals a node hash must not confuse the structure
	vals := []string{"0", "1", rm1, "@empty1", "@root"}
	valsBig := []string{"0", "1", rm1, "@empty1", "@empty2", "@root", "@node"}
	type plan struct {
		depth, maxLen int
		idx           []uint64
		vals          []string
	}
	var plans []plan
	all := func(d int) []uint64 {
		out := make([]uint64, 1<<uint(d))
		for i := range out {
			out[i] = uint64(i)
		}
		return out
	}
	if c.Quick() {
		plans = append(plans, plan{1, 4, all(1), valsBig}, plan{2, 3, all(2), valsBig}, plan{2, 4, all(2), []string{"0", "1", "@empty1", "@root"}}, plan{3, 3, all(3), vals})
	} else {
		plans = append(plans, plan{1, 6, all(1), valsBig}, plan{2, 4, all(2), valsBig}, plan{2, 5, all(2), vals}, plan{3, 4, all(3), vals}, plan{4, 3, all(4), vals})
	}
	for d := 4; d <= 32; d++ {
		h := uint64(1) << uint(d-1)
		idx := []uint64{0, 1, h - 1, h, 2*h - 2, 2*h - 1}
		L := 2
		if !c.Quick() {
			L = 3
		}
		plans = append(plans, plan{d, L, idx, []string{"0", "7", "@empty1", "@empty" + fmt.Sprint(d-1), "@root"}})
	}
	var mu sync.Mutex
	states := map[string]bool{}
	var histories, transitions int64
	exhaustive := true
	for _, p := range plans {
		k := len(p.idx) * len(p.vals)
		// enumerate all histories of every length 1..maxLen
		for L := 1; L <= p.maxLen; L++ {
			n := 1
			for i := 0; i < L; i++ {
				n *= k
			}
			done := par.For(n, func(h int) {
				ops := make([]c18Op, L)
				x := h
				leaves := map[uint64]string{}
				for i := 0; i < L; i++ {
					o := x % k
					x /= k
					ops[i] = c18Op{p.idx[o/len(p.vals)], p.vals[o%len(p.vals)]}
					if ops[i].Value == "0" {
						delete(leaves, ops[i].Index)
					} else {
						leaves[ops[i].Index] = ops[i].Value
					}
				}
				cs := c18Case{p.depth, ops}
				msg := c18Run(cs, false)
				key := fmt.Sprintf("d%d:", p.depth)
				for _, i := range p.idx {
					if v, ok := leaves[i]; ok {
						key += fmt.Sprintf("%d=%.3s,", i, v)
					}
				}
				mu.Lock()
				states[key] = true
				histories++
				transitions += int64(L)
				mu.Unlock()
				if msg != "" {
					c.Violation(fmt.Sprintf("d=%d ops=%v", p.depth, ops), msg, cs)
				}
				if (h == n/2 && L == p.maxLen && (p.depth <= 3 || p.depth == 32)) || (h == 1 && L == 2 && p.depth == 2) {
					c.Sample(cs)
				}
			}, func() bool { return c.Expired() || c.NViolations() > 0 })
			if done < n {
				exhaustive = false
				if c.Expired() {
					c.Cap(fmt.Sprintf("budget reached at depth %d length %d (%d/%d histories)", p.depth, L, done, n))
				}
			}
		}
	}
	c.Set("states", int64(len(states)))
	c.Set("transitions", transitions)
	c.Set("traces_validated_against_impl", histories)
	c.Set("exhaustive", exhaustive)
	c.Set("rule", "every update history up to the stated length per depth over (index alphabet x value alphabet), each replayed on a fresh real PoseidonTree; state = leaf vector; oracle = from-scratch recomputation + returned path authenticates old/new value")
	var pl []string
	for _, p := range plans {
		pl = append(pl, fmt.Sprintf("depth %d: len<=%d over %d idx x %d values", p.depth, p.maxLen, len(p.idx), len(p.vals)))
	}
	c.Set("bounds", pl)
	c.Assume("Poseidon reference = iden3 go-iden3-crypto (also used by the tree itself for hashing; the tree's structure logic is what is checked)")
	c.Assume("indices inside the tree and values < r only (outside the property's quantifier)")
}
