package checks

import (
	"encoding/json"
	"fmt"
	"math/big"
	"strings"
	"time"

	"verif/harness/ev"
	"verif/harness/gad"
	"verif/harness/par"
	"verif/harness/ref"
	"worldcoin/gnark-mbu/prover"
)

type c08Case struct {
	Kind  string   `json:"kind"` // ins | del | gen
	Start uint32   `json:"start,omitempty"`
	Idx   []uint32 `json:"idx,omitempty"`
	Pre   string   `json:"pre,omitempty"`
	Post  string   `json:"post,omitempty"`
	Comms []string `json:"comms,omitempty"`
	Mode  string   `json:"mode,omitempty"`
	Depth int      `json:"depth,omitempty"`
	Batch int      `json:"batch,omitempty"`
}

func init() {
	Registry["C08"] = func() {
		ev.Main("C08", "exploration", 150*time.Second, 20*time.Minute, c08Body, func(c *ev.Ctx, raw json.RawMessage) {
			var cs c08Case
			if err := json.Unmarshal(raw, &cs); err != nil {
				c.HarnessError("%v", err)
			}
			key, msg, err := c08Eval(&cs)
			if err != nil {
				c.HarnessError("%v", err)
			}
			fmt.Printf("replay: %s %s\n", key, msg)
			if msg != "" {
				c.Violation(key, msg, cs)
			}
		})
	}
}

func byteLen(x *big.Int) int { return len(x.Bytes()) }

// c08Eval returns a violation key (classifying which packed field is short) and message, or "" if fine.
func c08Eval(cs *c08Case) (key, msg string, err error) {
	defer func() {
		if r := recover(); r != nil {
			key, msg, err = "panic|"+cs.Kind, fmt.Sprintf("input-hash helper panics: %v", r), nil
		}
	}()
	switch cs.Kind {
	case "ins":
		p := prover.InsertionParameters{StartIndex: cs.Start, PreRoot: *bigs(cs.Pre), PostRoot: *bigs(cs.Post)}
		for _, s := range cs.Comms {
			p.IdComms = append(p.IdComms, *bigs(s))
		}
		if e := p.ComputeInputHashInsertion(); e != nil {
			return "ins|error", "ComputeInputHashInsertion returned " + e.Error(), nil
		}
		want := ref.KeccakInt(ref.PackInsertion(cs.Start, bigs(cs.Pre), bigs(cs.Post), ints(cs.Comms)))
		if p.InputHash.Cmp(want) != 0 {
			which := "values"
			switch {
			case byteLen(bigs(cs.Pre)) < 32 && byteLen(bigs(cs.Post)) < 32:
				which = "short preRoot and postRoot"
			case byteLen(bigs(cs.Pre)) < 32:
				which = "short preRoot"
			case byteLen(bigs(cs.Post)) < 32:
				which = "short postRoot"
			}
			return "ComputeInputHashInsertion|" + which, fmt.Sprintf("ComputeInputHashInsertion=0x%s, Keccak(uint32||uint256...)=0x%s (pre %d bytes, post %d bytes)", p.InputHash.Text(16), want.Text(16), byteLen(bigs(cs.Pre)), byteLen(bigs(cs.Post))), nil
		}
		return "", "", nil
	case "del":
		p := prover.DeletionParameters{DeletionIndices: cs.Idx, PreRoot: *bigs(cs.Pre), PostRoot: *bigs(cs.Post)}
		if e := p.ComputeInputHashDeletion(); e != nil {
			return "del|error", "ComputeInputHashDeletion returned " + e.Error(), nil
		}
		want := ref.KeccakInt(ref.PackDeletion(cs.Idx, bigs(cs.Pre), bigs(cs.Post)))
		if p.InputHash.Cmp(want) != 0 {
			which := "values"
			switch {
			case byteLen(bigs(cs.Pre)) < 32 && byteLen(bigs(cs.Post)) < 32:
				which = "short preRoot and postRoot"
			case byteLen(bigs(cs.Pre)) < 32:
				which = "short preRoot"
			case byteLen(bigs(cs.Post)) < 32:
				which = "short postRoot"
			}
			return "ComputeInputHashDeletion|" + which, fmt.Sprintf("ComputeInputHashDeletion=0x%s, Keccak(uint32...||uint256||uint256)=0x%s (pre %d bytes, post %d bytes)", p.InputHash.Text(16), want.Text(16), byteLen(bigs(cs.Pre)), byteLen(bigs(cs.Post))), nil
		}
		return "", "", nil
	case "gen":
		res, err := runCLI(nil, 5*time.Minute, "gen-test-params", "--mode", cs.Mode, "--tree-depth", fmt.Sprint(cs.Depth), "--batch-size", fmt.Sprint(cs.Batch))
		if err != nil {
			return "", "", err
		}
		if res.Exit != 0 || res.TimedOut {
			return fmt.Sprintf("gen-test-params|%s d=%d b=%d|exit", cs.Mode, cs.Depth, cs.Batch), fmt.Sprintf("gen-test-params exit %d: %s", res.Exit, tailStr(res.Stderr)), nil
		}
		var doc struct {
			InputHash  string     `json:"inputHash"`
			StartIndex uint32     `json:"startIndex"`
			Indices    []uint32   `json:"deletionIndices"`
			PreRoot    string     `json:"preRoot"`
			PostRoot   string     `json:"postRoot"`
			IdComms    []string   `json:"identityCommitments"`
			Proofs     [][]string `json:"merkleProofs"`
		}
		if e := json.Unmarshal(res.Stdout, &doc); e != nil {
			return fmt.Sprintf("gen-test-params|%s d=%d b=%d|json", cs.Mode, cs.Depth, cs.Batch), "stdout is not one JSON document: " + e.Error(), nil
		}
		var want *big.Int
		short := byteLen(bigs(doc.PreRoot)) < 32 || byteLen(bigs(doc.PostRoot)) < 32
		if cs.Mode == "insertion" {
			want = ref.KeccakInt(ref.PackInsertion(doc.StartIndex, bigs(doc.PreRoot), bigs(doc.PostRoot), ints(doc.IdComms)))
		} else {
			want = ref.KeccakInt(ref.PackDeletion(doc.Indices, bigs(doc.PreRoot), bigs(doc.PostRoot)))
		}
		k := fmt.Sprintf("gen-test-params|%s", cs.Mode)
		if short {
			k += "|short root"
		}
		if bigs(doc.InputHash).Cmp(want) != 0 {
			return k, fmt.Sprintf("gen-test-params --mode %s --tree-depth %d --batch-size %d emits inputHash %s, the circuit/contract hash is 0x%s (preRoot %d bytes, postRoot %d bytes): parameters unprovable", cs.Mode, cs.Depth, cs.Batch, doc.InputHash, want.Text(16), byteLen(bigs(doc.PreRoot)), byteLen(bigs(doc.PostRoot))), nil
		}
		// provability of the emitted set on the real circuit (engine), for affordable dimensions
		if cs.Depth*cs.Batch <= 48 && (short || (cs.Depth <= 4 && cs.Batch <= 2)) {
			var e error
			if cs.Mode == "insertion" {
				b := insBatch{Depth: cs.Depth, Hash: bigs(doc.InputHash).String(), Start: fmt.Sprint(doc.StartIndex), Pre: bigs(doc.PreRoot).String(), Post: bigs(doc.PostRoot).String(), Comms: strs(ints(doc.IdComms)), Proofs: strs2(ints2(doc.Proofs))}
				shape, asg := b.reduced(ref.BN).circuits()
				e = gad.Solved(shape, asg, ref.R)
			} else {
				var idx []string
				for _, i := range doc.Indices {
					idx = append(idx, fmt.Sprint(i))
				}
				b := delBatch{Depth: cs.Depth, Hash: bigs(doc.InputHash).String(), Pre: bigs(doc.PreRoot).String(), Post: bigs(doc.PostRoot).String(), Idx: idx, Items: strs(ints(doc.IdComms)), Proofs: strs2(ints2(doc.Proofs))}
				shape, asg := b.reduced(ref.BN).circuits()
				e = gad.Solved(shape, asg, ref.R)
			}
			if e != nil {
				return k + "|unprovable", fmt.Sprintf("emitted parameters (%s d=%d b=%d) do not satisfy the circuit", cs.Mode, cs.Depth, cs.Batch), nil
			}
			return "", "proved", nil
		}
		return "", "", nil
	case "circ-ins", "circ-del":
		// the helper's hash must be the one the circuit accepts: valid batch on a sparse tree at the given
		// dimensions and position(s), input hash from the library helper, full Define in the engine
		d, b := cs.Depth, cs.Batch
		cur := ref.NewSparse(ref.BN, d)
		size := ref.Pow2(d)
		if cs.Kind == "circ-ins" {
			bb := insBatch{Depth: d, Start: fmt.Sprint(cs.Start), Pre: cur.Root().String()}
			p := prover.InsertionParameters{StartIndex: cs.Start, PreRoot: *cur.Root()}
			for i := 0; i < b; i++ {
				ix := uint64(cs.Start) + uint64(i)
				cm := big.NewInt(int64(900 + i))
				path := cur.Proof(ix)
				bb.Comms = append(bb.Comms, cm.String())
				bb.Proofs = append(bb.Proofs, strs(path))
				p.IdComms = append(p.IdComms, *cm)
				cur.Set(ix, cm)
			}
			bb.Post = cur.Root().String()
			p.PostRoot = *cur.Root()
			if e := p.ComputeInputHashInsertion(); e != nil {
				return "circ-ins|error", "ComputeInputHashInsertion returned " + e.Error(), nil
			}
			bb.Hash = p.InputHash.String()
			shape, asg := bb.reduced(ref.BN).circuits()
			if e := gad.Solved(shape, asg, ref.R); e != nil {
				return fmt.Sprintf("circuit-rejects-helper-hash|insertion d=%d", d), fmt.Sprintf("insertion (depth %d, batch %d, start index %d): the circuit does not accept the valid batch with the input hash computed by ComputeInputHashInsertion", d, b, cs.Start), nil
			}
			return "", "proved", nil
		}
		bb := delBatch{Depth: d}
		p := prover.DeletionParameters{}
		for _, ix := range cs.Idx {
			if new(big.Int).SetUint64(uint64(ix)).Cmp(size) < 0 {
				cur.Set(uint64(ix), big.NewInt(int64(700+ix%97)))
			}
		}
		bb.Pre = cur.Root().String()
		p.PreRoot = *cur.Root()
		for _, ix := range cs.Idx {
			bb.Idx = append(bb.Idx, fmt.Sprint(ix))
			p.DeletionIndices = append(p.DeletionIndices, ix)
			if new(big.Int).SetUint64(uint64(ix)).Cmp(size) < 0 {
				it := new(big.Int)
				if v, ok := cur.Leaves[uint64(ix)]; ok {
					it = v
				}
				bb.Items = append(bb.Items, it.String())
				bb.Proofs = append(bb.Proofs, strs(cur.Proof(uint64(ix))))
				cur.Set(uint64(ix), new(big.Int))
			} else {
				bb.Items = append(bb.Items, "0")
				g := make([]string, d)
				for j := range g {
					g[j] = "0"
				}
				bb.Proofs = append(bb.Proofs, g)
			}
		}
		bb.Post = cur.Root().String()
		p.PostRoot = *cur.Root()
		if e := p.ComputeInputHashDeletion(); e != nil {
			return "circ-del|error", "ComputeInputHashDeletion returned " + e.Error(), nil
		}
		bb.Hash = p.InputHash.String()
		shape, asg := bb.reduced(ref.BN).circuits()
		if e := gad.Solved(shape, asg, ref.R); e != nil {
			return fmt.Sprintf("circuit-rejects-helper-hash|deletion d=%d", d), fmt.Sprintf("deletion (depth %d, indices %v): the circuit does not accept the valid batch with the input hash computed by ComputeInputHashDeletion", d, cs.Idx), nil
		}
		return "", "proved", nil
	}
	return "", "", fmt.Errorf("unknown kind")
}

// c08CircuitCases: dimensions x positions for the helper-vs-circuit agreement (positions whose 32-bit
// encodings have one, two, three and four significant bytes, byte-palindromic and not).
func c08CircuitCases(quick bool) []c08Case {
	var out []c08Case
	depths := []int{1, 2, 3, 8, 9, 10, 16, 17, 24, 25, 31, 32}
	if quick {
		depths = []int{2, 8, 9, 17, 25, 32}
	}
	pos := []uint64{0, 1, 2, 254, 255, 256, 300, 513, 65535, 65536, 70000, 1 << 24, 1<<24 + 258, 1<<31 - 2, 1 << 31, 1<<32 - 3}
	for _, d := range depths {
		size := uint64(1) << uint(d)
		for _, b := range []int{1, 2} {
			if quick && b == 1 {
				continue
			}
			for _, st := range pos {
				if st+uint64(b) > size {
					continue
				}
				out = append(out, c08Case{Kind: "circ-ins", Depth: d, Batch: b, Start: uint32(st)})
			}
			if d <= 31 {
				// deletion: pairs of positions (and one padding index) so that the packed indices differ
				var live []uint32
				for _, st := range pos {
					if st < size {
						live = append(live, uint32(st))
					}
				}
				for i := 0; i+1 < len(live); i += 2 {
					idx := []uint32{live[i+1], live[i]}
					if b == 2 {
						idx = append(idx, uint32(size+uint64(live[i])%size))
					}
					out = append(out, c08Case{Kind: "circ-del", Depth: d, Batch: len(idx), Idx: idx})
				}
			}
		}
	}
	return out
}

func tailStr(b []byte) string {
	if len(b) > 300 {
		b = b[len(b)-300:]
	}
	return string(b)
}

func c08Body(c *ev.Ctx) {
	quick := c.Quick()
	// values of every big-endian byte length 0..32: smallest and largest of each length (below r)
	var lens []*big.Int
	lens = append(lens, ref.B(0))
	for L := 1; L <= 32; L++ {
		lo := ref.Pow2(8 * (L - 1))
		hi := new(big.Int).Sub(ref.Pow2(8*L), ref.B(1))
		if hi.Cmp(ref.R) >= 0 {
			hi = new(big.Int).Sub(ref.R, ref.B(1))
		}
		if lo.Cmp(ref.R) < 0 {
			lens = append(lens, lo)
		}
		lens = append(lens, hi)
	}
	full := new(big.Int).Sub(ref.R, ref.B(5)) // a 32-byte value
	idxVals := []uint32{0, 1, 255, 256, 1 << 24, 1<<32 - 1}
	var cases []c08Case
	for i, pre := range lens {
		for j, post := range lens {
			if quick && (i+j)%3 != 0 && i != j && i > 2 && j > 2 {
				continue
			}
			cases = append(cases, c08Case{Kind: "ins", Start: idxVals[(i+j)%len(idxVals)], Pre: pre.String(), Post: post.String(), Comms: []string{full.String(), lens[(i*7+j)%len(lens)].String()}})
			cases = append(cases, c08Case{Kind: "del", Idx: []uint32{idxVals[i%len(idxVals)], idxVals[j%len(idxVals)]}, Pre: pre.String(), Post: post.String()})
		}
	}
	for _, b := range []int{0, 1, 2, 3, 19} {
		for _, v := range lens {
			comms := make([]string, b)
			idx := make([]uint32, b)
			for i := range comms {
				comms[i] = lens[(i*5+len(v.Bytes()))%len(lens)].String()
				idx[i] = idxVals[(i+len(v.Bytes()))%len(idxVals)]
			}
			if b > 0 {
				comms[b-1] = v.String()
			}
			for _, st := range idxVals {
				cases = append(cases, c08Case{Kind: "ins", Start: st, Pre: full.String(), Post: full.String(), Comms: comms})
			}
			cases = append(cases, c08Case{Kind: "del", Idx: idx, Pre: full.String(), Post: full.String()})
		}
	}
	nHelper := len(cases)
	maxB := 8
	if quick {
		maxB = 4
	}
	for _, mode := range []string{"insertion", "deletion"} {
		for d := 1; d <= 32; d++ {
			for b := 1; b <= maxB; b++ {
				need := b
				if mode == "deletion" {
					need = 2 * b
				}
				if d < 6 && need > 1<<uint(d) {
					continue // the generator's tree cannot hold the batch: not a supported dimension
				}
				cases = append(cases, c08Case{Kind: "gen", Mode: mode, Depth: d, Batch: b})
			}
		}
	}
	cc := c08CircuitCases(quick)
	cases = append(cases, cc...)
	c.Set("helper_vs_circuit_cases", int64(len(cc)))
	var evals, proved, shortSeen int64
	distinct := map[string]bool{}
	c.Logf("%d helper cases, %d generator runs, %d helper-vs-circuit cases", nHelper, len(cases)-nHelper-len(cc), len(cc))
	done := par.For(len(cases), func(i int) {
		key, msg, err := c08Eval(&cases[i])
		if err != nil {
			c.HarnessError("%v", err)
		}
		if key != "" {
			c.Violation(key, msg, cases[i])
		} else if msg == "proved" {
			c.Add("generator_sets_proved_in_engine", 1)
		}
	}, func() bool { return c.Expired() })
	_ = proved
	_ = shortSeen
	runPairIsolation(c, libScenarios(c, 2, 3, 4, 5)) // input-hash helpers, parameter JSON
	evals = int64(done)
	for _, cs := range cases {
		if cs.Kind == "gen" {
			distinct[fmt.Sprintf("gen-%s-%d-%d", cs.Mode, cs.Depth, cs.Batch)] = true
		} else if strings.HasPrefix(cs.Kind, "circ-") {
			distinct[fmt.Sprintf("%s-%d-%d-%d-%v", cs.Kind, cs.Depth, cs.Batch, cs.Start, cs.Idx)] = true
		} else {
			distinct[fmt.Sprintf("%s-%d-%d-%d", cs.Kind, byteLen(bigs(cs.Pre)), byteLen(bigs(cs.Post)), len(cs.Comms)+len(cs.Idx))] = true
		}
	}
	if done < len(cases) {
		c.Cap(fmt.Sprintf("%d of %d cases", done, len(cases)))
	} else {
		c.Set("exhaustive", true)
	}
	c.Set("evaluations", evals)
	c.Set("distinct_nontrivial", int64(len(distinct)))
	c.Set("helper_cases", int64(nHelper))
	c.Set("generator_runs", int64(len(cases)-nHelper-len(cc)))
	c.Sample(cases[7])
	c.Sample(cases[len(cases)-1])
	c.Set("rule", "helper cases: every pair of big-endian byte lengths 0..32 for (preRoot, postRoot) (smallest/largest value of each length), batch sizes {0,1,2,3,19}, index extremes; generator cases: gen-test-params of the built binary for every (mode, depth 1..32, batch 1..4/8) whose tree can hold the batch; helper-vs-circuit cases: valid batches at depths {1..3,8,9,10,16,17,24,25,31,32} x positions with 1..4 significant index bytes, input hash from the helper, full Define in the engine must accept; oracle: Keccak of the fixed-width packing written from the statement; distinct = (helper, preLen, postLen, batch) classes and (mode, depth, batch) triples")
	c.Assume("x/crypto legacy Keccak-256 as the on-chain hash; that the circuit enforces exactly this packing is C03's subject")
}
