package checks

import (
	"encoding/json"
	"fmt"
	"math/big"
	"math/rand"
	"strings"
	"time"

	"verif/harness/ev"
	"verif/harness/gad"
	"verif/harness/r1csmc"
	"verif/harness/ref"
)

// digits are given little-endian (digit i has weight 2^i) as small integers; for
// BN254 vectors a compact form is used: Digits = "r>i:lo" etc. is avoided — the
// vector is stored explicitly as a string of decimal digits separated by commas
// only when non-boolean, else as a 0/1 string.
type c06Case struct {
	Kind   string `json:"kind"` // tiny-torbe | tiny-rmrc | tiny-frombbe | eng-rmrc | eng-torbe | eng-frombbe | bn-rmrc-engine | bn-rmrc-compiled
	P      string `json:"p,omitempty"`
	Size   int    `json:"size,omitempty"`
	V      string `json:"v,omitempty"`      // value for torbe
	Digits string `json:"digits,omitempty"` // LE digit string, one char per digit ('0','1', or 'x' = non-boolean value 2, 'y' = p-1)
	Flip   int    `json:"flip"`             // for eng-torbe / eng-frombbe: -1 present reference output, else perturb output
}

func init() {
	Registry["C06"] = func() {
		ev.Main("C06", "exploration", 150*time.Second, 30*time.Minute, c06Body, func(c *ev.Ctx, raw json.RawMessage) {
			var cs c06Case
			if err := json.Unmarshal(raw, &cs); err != nil {
				c.HarnessError("%v", err)
			}
			got, want, err := c06Eval(&cs, nil, nil)
			if err != nil {
				c.HarnessError("%v", err)
			}
			fmt.Printf("replay: got=%s want=%s\n", got, want)
			if got != want {
				c.Violation("replay", fmt.Sprintf("got %s, want %s", got, want), cs)
			}
		})
	}
}

func digitVals(s string, p *big.Int) (vals []*big.Int, boolean bool) {
	boolean = true
	for _, ch := range s {
		switch ch {
		case '0':
			vals = append(vals, ref.B(0))
		case '1':
			vals = append(vals, ref.B(1))
		case 'x':
			vals = append(vals, ref.B(2))
			boolean = false
		case 'y':
			vals = append(vals, new(big.Int).Sub(p, ref.B(1)))
			boolean = false
		}
	}
	return
}

func leValue(d []*big.Int) *big.Int {
	v := new(big.Int)
	for i := len(d) - 1; i >= 0; i-- {
		v.Lsh(v, 1)
		v.Add(v, d[i])
	}
	return v
}

// bigEndianBits: the string emitted for value v at width n: bytes most significant
// first, bits least-significant first inside each byte.
func bigEndianBits(v *big.Int, n int) []*big.Int {
	by := make([]byte, n/8)
	v.FillBytes(by)
	return bitsLSB(by)
}

// denoted: integer denoted by a big-endian bit string (same convention).
func denoted(bits []*big.Int) *big.Int {
	by := make([]byte, len(bits)/8)
	for i, b := range bits {
		if b.Sign() != 0 {
			by[i/8] |= 1 << uint(i%8)
		}
	}
	return new(big.Int).SetBytes(by)
}

var tinyCache6 = map[string]*r1csmc.Sys[uint64, r1csmc.Small]{}

func c06Eval(cs *c06Case, ts *tinyStats, bs *bnStats) (string, string, error) {
	verdict := func(e error) string {
		if e == nil {
			return "accept"
		}
		return "reject"
	}
	acc := func(b bool) string {
		if b {
			return "accept"
		}
		return "reject"
	}
	switch cs.Kind {
	case "tiny-torbe":
		sys := tinyCache6[fmt.Sprintf("torbe-%d", cs.Size)]
		outs := make([]string, cs.Size)
		for i := range outs {
			outs[i] = fmt.Sprintf("Out_%d", i)
		}
		v := bigs(cs.V)
		got, err := tinyRunVec(sys, map[string]uint64{"In": v.Uint64()}, outs, ts)
		if err != nil {
			return "", "", err
		}
		want := "[]"
		if v.BitLen() <= cs.Size {
			var sb strings.Builder
			for _, b := range bigEndianBits(v, cs.Size) {
				sb.WriteString(b.String())
			}
			want = "[" + sb.String() + "]"
		}
		return fmt.Sprint(got), want, nil
	case "tiny-rmrc":
		sys := tinyCache6[fmt.Sprintf("rmrc-%d", len(cs.Digits))]
		d, boolean := digitVals(cs.Digits, ref.B(47))
		vals := map[string]uint64{}
		for i, x := range d {
			vals[fmt.Sprintf("In_%d", i)] = x.Uint64()
		}
		got, err := tinyRunVec(sys, vals, nil, ts)
		if err != nil {
			return "", "", err
		}
		return acc(len(got) > 0), acc(boolean && leValue(d).Cmp(ref.B(47)) < 0), nil
	case "tiny-frombbe":
		sys := tinyCache6[fmt.Sprintf("frombbe-%d", len(cs.Digits))]
		d, _ := digitVals(cs.Digits, ref.B(47))
		vals := map[string]uint64{}
		for i, x := range d {
			vals[fmt.Sprintf("In_%d", i)] = x.Uint64()
		}
		got, err := tinyRun(sys, vals, "Out", ts)
		if err != nil {
			return "", "", err
		}
		return fmt.Sprint(got), fmt.Sprintf("[%d]", new(big.Int).Mod(denoted(d), ref.B(47)).Uint64()), nil
	case "eng-rmrc", "bn-rmrc-engine":
		p := bigs(cs.P)
		d, boolean := digitVals(cs.Digits, p)
		want := acc(boolean && (len(d) < p.BitLen() || leValue(d).Cmp(p) < 0))
		got := verdict(gad.Solved(&gad.RMRC{In: gad.Vars(len(d))}, &gad.RMRC{In: fv(d)}, p))
		if !boolean && len(d) < p.BitLen() {
			// narrower than the field: the statement only speaks about widths >= the bit
			// length (booleanity is then the decomposition's job); not judged
			want = got
		}
		return got, want, nil
	case "bn-rmrc-compiled":
		d, boolean := digitVals(cs.Digits, ref.R)
		key := fmt.Sprintf("rmrc-bn-%d", len(d))
		var sys *bnSys
		if v, ok := sysCache.Load(key); ok {
			sys = v.(*bnSys)
		} else {
			s, _, err := r1csmc.CompileBN(&gad.RMRC{In: gad.Vars(len(d))})
			if err != nil {
				return "", "", err
			}
			sysCache.Store(key, s)
			sys = s
		}
		hon, _, err := bnSolve(sys, &gad.RMRC{In: fv(d)}, 0, nil, bs)
		if err != nil {
			return "", "", err
		}
		return acc(hon > 0), acc(boolean && leValue(d).Cmp(ref.R) < 0), nil
	case "eng-torbe":
		p := bigs(cs.P)
		v := bigs(cs.V)
		fits := v.BitLen() <= cs.Size
		var out []*big.Int
		if fits {
			out = bigEndianBits(v, cs.Size)
		} else {
			out = bigEndianBits(new(big.Int).Mod(v, ref.Pow2(cs.Size)), cs.Size)
		}
		want := acc(fits && cs.Flip < 0)
		if cs.Flip >= 0 {
			out[cs.Flip] = new(big.Int).Xor(out[cs.Flip], ref.B(1))
		}
		return verdict(gad.Solved(&gad.ToRBE{Out: gad.Vars(cs.Size), Size: cs.Size}, &gad.ToRBE{In: v, Out: fv(out)}, p)), want, nil
	case "eng-frombbe":
		p := bigs(cs.P)
		d, _ := digitVals(cs.Digits, p)
		out := new(big.Int).Mod(denoted(d), p)
		want := "accept"
		if cs.Flip >= 0 {
			out = new(big.Int).Mod(new(big.Int).Add(out, ref.B(1)), p)
			want = "reject"
		}
		return verdict(gad.Solved(&gad.FromBBE{In: gad.Vars(len(d))}, &gad.FromBBE{In: fv(d), Out: out}, p)), want, nil
	case "eng-bitseq":
		// cs.V = value, cs.Size = width, cs.Digits = operation sequence over {F,T}
		p := bigs(cs.P)
		v := bigs(cs.V)
		in := bigEndianBits(v, cs.Size)
		if denoted(in).Cmp(v) != 0 {
			return "", "", fmt.Errorf("harness: bit-string conventions disagree for %s", v)
		}
		shape := &gad.BitSeq{In: gad.Vars(cs.Size), InCopy: gad.Vars(cs.Size), Ops: cs.Digits}
		asg := &gad.BitSeq{In: fv(in), InCopy: fv(in), Val: v, Ops: cs.Digits}
		return verdict(gad.Solved(shape, asg, p)), "accept", nil
	}
	return "", "", fmt.Errorf("unknown kind %q", cs.Kind)
}

// c06SeqCases: every call sequence of length <= maxLen over {F, T} on shared variables, for values that are
// not byte-palindromes, over several fields and widths.
func c06SeqCases(maxLen int) []c06Case {
	var seqs []string
	var rec func(cur string)
	rec = func(cur string) {
		if cur != "" {
			seqs = append(seqs, cur)
		}
		if len(cur) == maxLen {
			return
		}
		rec(cur + "F")
		rec(cur + "T")
	}
	rec("")
	type fset struct {
		p    string
		size int
		vals []string
	}
	rm1 := new(big.Int).Sub(ref.R, ref.B(1))
	sets := []fset{
		{"65537", 16, []string{"1", "256", "4660", "65280", "65534"}},
		{"16777259", 24, []string{"1", "65536", "1193046", "16777215"}},
		{"16777259", 32, []string{"1", "1193046"}},
		{ref.R.String(), 256, []string{"1", "256", rm1.String(), new(big.Int).Sub(ref.Pow2(248), ref.B(1)).String(), ref.Pow2(248).String()}},
		{ref.R.String(), 32, []string{"1", "300", "4294967295"}},
	}
	var out []c06Case
	for _, st := range sets {
		for _, v := range st.vals {
			for _, sq := range seqs {
				out = append(out, c06Case{Kind: "eng-bitseq", P: st.p, Size: st.size, V: v, Digits: sq, Flip: -1})
			}
		}
	}
	return out
}

func bitString(x uint64, n int) string {
	b := make([]byte, n)
	for i := 0; i < n; i++ {
		b[i] = byte('0' + (x>>uint(i))&1)
	}
	return string(b)
}

func c06Body(c *ev.Ctx) {
	r := &caseRunner{c: c, outcomes: map[string]int64{}}
	quick := c.Quick()
	var err error
	for _, n := range []int{8, 16} {
		if tinyCache6[fmt.Sprintf("torbe-%d", n)], err = r1csmc.CompileTiny(&gad.ToRBE{Out: gad.Vars(n), Size: n}); err != nil {
			c.HarnessError("%v", err)
		}
		if tinyCache6[fmt.Sprintf("rmrc-%d", n)], err = r1csmc.CompileTiny(&gad.RMRC{In: gad.Vars(n)}); err != nil {
			c.HarnessError("%v", err)
		}
		if tinyCache6[fmt.Sprintf("frombbe-%d", n)], err = r1csmc.CompileTiny(&gad.FromBBE{In: gad.Vars(n)}); err != nil {
			c.HarnessError("%v", err)
		}
	}
	// ---- A: F_47, compiled systems, complete over hint values --------------------
	var cases []c06Case
	for _, n := range []int{8, 16} {
		for v := 0; v < 47; v++ {
			cases = append(cases, c06Case{Kind: "tiny-torbe", Size: n, V: fmt.Sprint(v), Flip: -1})
		}
	}
	for x := uint64(0); x < 256; x++ {
		s := bitString(x, 8)
		cases = append(cases, c06Case{Kind: "tiny-rmrc", Digits: s, Flip: -1}, c06Case{Kind: "tiny-frombbe", Digits: s, Flip: -1})
		for i := 0; i < 8; i++ {
			for _, nb := range []byte{'x', 'y'} {
				t := []byte(s)
				t[i] = nb
				cases = append(cases, c06Case{Kind: "tiny-rmrc", Digits: string(t), Flip: -1})
			}
		}
	}
	step := uint64(1)
	if quick {
		step = 1
	}
	for x := uint64(0); x < 65536; x += step {
		s := bitString(x, 16)
		cases = append(cases, c06Case{Kind: "tiny-rmrc", Digits: s, Flip: -1}, c06Case{Kind: "tiny-frombbe", Digits: s, Flip: -1})
	}
	runCases(r, "F47 compiled ToReducedBigEndian / ReducedModRCheck / FromBinaryBigEndian: all values, all digit vectors, all hint values", cases, c06Eval)
	// ---- B: other primes in the gnark engine ---------------------------------------
	cases = nil
	primes := []int64{3, 5, 7, 11, 13, 17, 31, 61, 127, 251, 257, 65521}
	for _, p := range primes {
		ps := fmt.Sprint(p)
		for _, n := range []int{8, 16} {
			lim := uint64(1) << uint(n)
			st := uint64(1)
			if n == 16 && (quick || p > 13) {
				st = 7
				if !quick {
					st = 3
				}
			}
			for x := uint64(0); x < lim; x += st {
				s := bitString(x, n)
				cases = append(cases, c06Case{Kind: "eng-rmrc", P: ps, Digits: s, Flip: -1})
				if n == 8 || x%5 == 0 {
					cases = append(cases, c06Case{Kind: "eng-frombbe", P: ps, Digits: s, Flip: -1}, c06Case{Kind: "eng-frombbe", P: ps, Digits: s, Flip: 0})
				}
			}
			for i := 0; i < n; i++ {
				t := []byte(bitString(0, n))
				t[i] = 'x'
				cases = append(cases, c06Case{Kind: "eng-rmrc", P: ps, Digits: string(t), Flip: -1})
				t[i] = 'y'
				cases = append(cases, c06Case{Kind: "eng-rmrc", P: ps, Digits: string(t), Flip: -1})
			}
			if p <= 257 || !quick {
				for v := int64(0); v < p; v++ {
					if p > 257 && v%17 != 0 && v < p-300 {
						continue
					}
					cases = append(cases, c06Case{Kind: "eng-torbe", P: ps, Size: n, V: fmt.Sprint(v), Flip: -1}, c06Case{Kind: "eng-torbe", P: ps, Size: n, V: fmt.Sprint(v), Flip: int(v) % n})
				}
			}
		}
		// width 24 (three bytes): boundary vectors around the modulus
		for d := int64(-2); d <= 2; d++ {
			v := p + d
			if v >= 0 {
				cases = append(cases, c06Case{Kind: "eng-rmrc", P: ps, Digits: bitString(uint64(v), 24), Flip: -1})
			}
		}
	}
	// all of F_p^8 for p=3 (6561) and, thorough, p=5 (390625): every digit, boolean or not
	full := []int64{3}
	if !quick {
		full = append(full, 5)
	}
	for _, p := range full {
		n := 1
		for i := 0; i < 8; i++ {
			n *= int(p)
		}
		for x := 0; x < n; x++ {
			y := x
			t := make([]byte, 8)
			ok := true
			for i := range t {
				dgt := y % int(p)
				y /= int(p)
				switch {
				case dgt <= 1:
					t[i] = byte('0' + dgt)
				case dgt == 2:
					t[i] = 'x'
				case dgt == int(p)-1:
					t[i] = 'y'
				default:
					ok = false
				}
			}
			if ok {
				cases = append(cases, c06Case{Kind: "eng-rmrc", P: fmt.Sprint(p), Digits: string(t), Flip: -1})
			}
		}
	}
	runCases(r, "small primes (engine): ReducedModRCheck on all boolean vectors of width 8/16 (+non-boolean digits), ToReducedBigEndian on all values, FromBinaryBigEndian", cases, c06Eval)
	// ---- B2: call sequences on shared variables (gadgets must not disturb their caller's variables) ----
	{
		ml := 3
		if !quick {
			ml = 4
		}
		runCases(r, "engine: every sequence of <= 3 FromBinaryBigEndian / ToReducedBigEndian calls on shared variables; the caller's bit string must be left as passed", c06SeqCases(ml), c06Eval)
	}
	// ---- C: BN254, 256 digits ------------------------------------------------------
	cases = nil
	rbits := []byte(bitString(0, 256))
	for i := 0; i < 256; i++ {
		rbits[i] = byte('0' + ref.R.Bit(i))
	}
	rng := rand.New(rand.NewSource(c.Seed))
	lowers := []func(i int) byte{
		func(int) byte { return '0' },
		func(int) byte { return '1' },
		func(i int) byte { return rbits[i] },
		func(int) byte { return byte('0' + rng.Intn(2)) },
	}
	var bnDigits []string
	for i := 0; i < 256; i++ {
		for _, lo := range lowers {
			t := append([]byte{}, rbits...)
			t[i] ^= 1 // differs from the modulus at i (above i equal): value > r if r has 0 there, < r if 1
			for j := 0; j < i; j++ {
				t[j] = lo(j)
			}
			bnDigits = append(bnDigits, string(t))
		}
		t := append([]byte{}, rbits...)
		t[i] = 'x'
		bnDigits = append(bnDigits, string(t))
		t = append([]byte{}, rbits...)
		t[i] = 'y'
		for j := 0; j < i; j++ {
			t[j] = '0'
		}
		bnDigits = append(bnDigits, string(t))
	}
	special := []*big.Int{ref.R, new(big.Int).Sub(ref.R, ref.B(1)), new(big.Int).Add(ref.R, ref.B(1)), new(big.Int).Sub(ref.Pow2(256), ref.B(1)), ref.B(0), ref.Pow2(255), ref.Pow2(254), new(big.Int).Sub(ref.Pow2(254), ref.B(1)), new(big.Int).Mul(ref.R, ref.B(2)), new(big.Int).Mul(ref.R, ref.B(5))}
	for _, v := range special {
		t := make([]byte, 256)
		for i := range t {
			t[i] = byte('0' + v.Bit(i))
		}
		bnDigits = append(bnDigits, string(t))
	}
	for _, dstr := range bnDigits {
		cases = append(cases, c06Case{Kind: "bn-rmrc-engine", P: ref.R.String(), Digits: dstr, Flip: -1})
	}
	for k, dstr := range bnDigits {
		if quick && k%6 != 0 && k < len(bnDigits)-len(special) {
			continue
		}
		cases = append(cases, c06Case{Kind: "bn-rmrc-compiled", Digits: dstr, Flip: -1})
	}
	// widths below the field size are "definitely reduced"; ToReducedBigEndian on BN254 values
	for _, v := range fieldAlphabet(c.Seed, false) {
		cases = append(cases, c06Case{Kind: "eng-torbe", P: ref.R.String(), Size: 256, V: v.String(), Flip: -1}, c06Case{Kind: "eng-torbe", P: ref.R.String(), Size: 256, V: v.String(), Flip: 200})
		cases = append(cases, c06Case{Kind: "eng-torbe", P: ref.R.String(), Size: 32, V: v.String(), Flip: -1})
		cases = append(cases, c06Case{Kind: "eng-torbe", P: ref.R.String(), Size: 248, V: v.String(), Flip: -1})
	}
	runCases(r, "BN254 ReducedModRCheck, 256 digits: every position of the first difference from the modulus, both directions, 4 lower-bit fillings, non-boolean digits, special values (engine + compiled)", cases, c06Eval)
	runPairIsolation(c, c06Pairs())
	r.finish("C06")
	c.Set("rule", "cases = (field, width, digit vector or value, presented output); F_47: compiled R1CS searched with every value of every hint wire; small primes: gnark engine; BN254: engine and compiled system with the independent evaluator; oracle: accept iff all digits boolean and value < modulus (when width >= field bit length) and value fits the width; emitted string = big-endian bytes, LSB-first bits; non-trivial = reference accepts")
	c.Assume("engine runs use honest hints; the dishonest-prover part is the complete F_47 search and the BN254 compiled runs where ReducedModRCheck is fed adversarial digit vectors directly")
}
