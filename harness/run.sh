#!/bin/bash
set -u
HERE="$(cd "$(dirname "$0")" && pwd)"
. "$HERE/../env.sh"
ID="$1"; shift
SCRATCH="$(mktemp -d /tmp/verif-XXXXXX)"
export VERIF_SCRATCH="$SCRATCH"
trap 'rm -rf "$SCRATCH"' EXIT
BIN="$VERIF_DIR/.bin"; mkdir -p "$BIN"
# modfile with the replace pointing at the tree under check
sed "s#=> /repo#=> $VERIF_REPO#" "$HERE/go.mod" > "$SCRATCH/go.mod"
cp "$HERE/go.sum" "$SCRATCH/go.sum"
export VERIF_MODFILE="$SCRATCH/go.mod"
if ! go build -C "$HERE" -modfile="$SCRATCH/go.mod" -o "$BIN/vcheck" ./cmd/vcheck 2> "$SCRATCH/build.log"; then
  cat "$SCRATCH/build.log" >&2
  echo "HARNESS-ERROR property=$ID harness does not build against $VERIF_REPO" >&2
  exit 2
fi
"$BIN/vcheck" "$ID" "$@"
rc=$?
exit $rc
