#!/bin/bash
set -u
HERE="$(cd "$(dirname "$0")" && pwd)"
. "$HERE/../env.sh"
ID="$1"; shift
SCRATCH="$(mktemp -d /tmp/verif-XXXXXX)"
export VERIF_SCRATCH="$SCRATCH"
trap 'rm -rf "$SCRATCH"' EXIT
BIN="$VERIF_DIR/.bin"; mkdir -p "$BIN"
# modfile with the replace pointing at the tree under check
sed "s#=> /repo#=> $VERIF_REPO#" "$HERE/go.mod" > "$SCRATCH/go.mod"
cp "$HERE/go.sum" "$SCRATCH/go.sum"
export VERIF_MODFILE="$SCRATCH/go.mod"
if ! go build -C "$HERE" -modfile="$SCRATCH/go.mod" -o "$BIN/vcheck" ./cmd/vcheck 2> "$SCRATCH/build.log"; then
  cat "$SCRATCH/build.log" >&2
  echo "HARNESS-ERROR property=$ID harness does not build against $VERIF_REPO" >&2
  exit 2
fi
case "$ID" in
  C12|C17)
    # patched-runtime build (owned map-iteration order) of the child program
    if python3 "$HERE/maporder/patch.py" "$(go env GOROOT)" "$BIN/maporder" > "$SCRATCH/patch.log" 2>&1; then
      if ! go build -C "$HERE" -modfile="$SCRATCH/go.mod" -overlay "$BIN/maporder/overlay.json" -tags verifmap -o "$BIN/mapchild" ./cmd/mapchild 2> "$SCRATCH/build2.log"; then
        cat "$SCRATCH/build2.log" >&2
        echo "HARNESS-ERROR property=$ID mapchild does not build" >&2
        exit 2
      fi
    else
      cat "$SCRATCH/patch.log" >&2
      echo "HARNESS-ERROR property=$ID runtime map.go anchors not found" >&2
      exit 2
    fi ;;
esac
case "$ID" in
  C14|C13|C09|C20)
    # instrument the working tree's server package and build the scheduler harness with the overlay
    # listed files at statement level; every other file of these packages (also files a changed tree adds)
    # at function-entry level
    FILES="server/job.go server/server.go server/wrapped_http/serve_mux.go server server/wrapped_http"
    if [ "$ID" = C13 ]; then FILES="$FILES prover/marshal.go prover/insertion_proving_system.go prover/deletion_proving_system.go prover"; fi
    if ! go build -C "$HERE" -modfile="$SCRATCH/go.mod" -o "$BIN/instrument" ./cmd/instrument 2> "$SCRATCH/build3.log"; then
      cat "$SCRATCH/build3.log" >&2; echo "HARNESS-ERROR property=$ID instrumenter does not build" >&2; exit 2
    fi
    if ! "$BIN/instrument" -repo "$VERIF_REPO" -rt "$HERE/verifrt" -out "$SCRATCH/ins-$ID" $FILES 2> "$SCRATCH/ins.log"; then
      cat "$SCRATCH/ins.log" >&2
      "$BIN/vcheck" NOTEXPLORED "$ID" "$(cat "$SCRATCH/ins.log")"
      exit 0
    fi
    if ! go build -C "$HERE" -modfile="$SCRATCH/go.mod" -overlay "$SCRATCH/ins-$ID/overlay.json" -tags verif -o "$BIN/vsched-$ID" ./cmd/vsched 2> "$SCRATCH/build4.log"; then
      cat "$SCRATCH/build4.log" >&2
      "$BIN/vcheck" NOTEXPLORED "$ID" "instrumented build failed: $(head -c 600 "$SCRATCH/build4.log")"
      exit 0
    fi
    if [ "$ID" = C14 ]; then
      # real net/http conformance / end-to-end program (net/http's own test hook via linkname)
      if go build -C "$HERE" -modfile="$SCRATCH/go.mod" -ldflags=-checklinkname=0 -o "$BIN/realhttp" ./cmd/realhttp 2> "$SCRATCH/build5.log"; then
        export VERIF_REALHTTP="$BIN/realhttp"
      else
        cat "$SCRATCH/build5.log" >&2
      fi
    fi
    "$BIN/vsched-$ID" "$ID" "$@"
    exit $? ;;
esac
case "$ID" in
  C10|C08|C01|C02|C03|C04|C05|C06|C07|C11|C12)
    # sequential check + concurrent-callers phase: the code under check is instrumented and two threads
    # run it under the scheduler. If the tree cannot be instrumented the plain build runs (phase
    # recorded as not explored).
    INSOPT=""
    case "$ID" in
      C11) FILES="prover/marshal.go prover" ;;
      C10|C08) FILES="prover/marshal.go prover/insertion_proving_system.go prover/deletion_proving_system.go" ;;
      C05) FILES="prover/poseidon/poseidon.go" ;;
      C07) FILES="prover/insertion_proving_system.go prover/deletion_proving_system.go prover" ;;
      C04) FILES="prover/keccak/keccak.go"; INSOPT="-funclevel prover/keccak/keccak.go" ;;
      C06) FILES="prover/circuit_utils.go" ;;
      # whole circuits defined side by side: Define at statement level, the gadgets at function-entry level
      C03) FILES="prover/insertion_circuit.go prover/deletion_circuit.go prover/circuit_utils.go"; INSOPT="-funclevel prover/circuit_utils.go" ;;
      # overlapping builds: the build entry points and Define at statement level (gadgets are atomic steps)
      C12) FILES="prover/insertion_proving_system.go prover/deletion_proving_system.go prover/insertion_circuit.go prover/deletion_circuit.go" ;;
      C01) FILES="prover/circuit_utils.go prover/insertion_circuit.go prover/poseidon/poseidon.go" ;;
      C02) FILES="prover/circuit_utils.go prover/deletion_circuit.go prover/poseidon/poseidon.go" ;;
    esac
    if go build -C "$HERE" -modfile="$SCRATCH/go.mod" -o "$BIN/instrument" ./cmd/instrument 2> "$SCRATCH/build3.log" \
       && "$BIN/instrument" $INSOPT -repo "$VERIF_REPO" -rt "$HERE/verifrt" -out "$SCRATCH/ins-$ID" $FILES 2> "$SCRATCH/ins.log" \
       && go build -C "$HERE" -modfile="$SCRATCH/go.mod" -overlay "$SCRATCH/ins-$ID/overlay.json" -tags verif -o "$BIN/vsched-$ID" ./cmd/vsched 2> "$SCRATCH/build4.log"; then
      "$BIN/vsched-$ID" "$ID" "$@"
      exit $?
    fi
    cat "$SCRATCH/build3.log" "$SCRATCH/ins.log" "$SCRATCH/build4.log" >&2 2>/dev/null ;;
esac
"$BIN/vcheck" "$ID" "$@"
rc=$?
exit $rc
