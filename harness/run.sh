#!/bin/bash
set -u
HERE="$(cd "$(dirname "$0")" && pwd)"
. "$HERE/../env.sh"
ID="$1"; shift
SCRATCH="$(mktemp -d /tmp/verif-XXXXXX)"
export VERIF_SCRATCH="$SCRATCH"
trap 'rm -rf "$SCRATCH"' EXIT
BIN="$VERIF_DIR/.bin"; mkdir -p "$BIN"
# modfile with the replace pointing at the tree under check
sed "s#=> /repo#=> $VERIF_REPO#" "$HERE/go.mod" > "$SCRATCH/go.mod"
cp "$HERE/go.sum" "$SCRATCH/go.sum"
export VERIF_MODFILE="$SCRATCH/go.mod"
if ! go build -C "$HERE" -modfile="$SCRATCH/go.mod" -o "$BIN/vcheck" ./cmd/vcheck 2> "$SCRATCH/build.log"; then
  cat "$SCRATCH/build.log" >&2
  echo "HARNESS-ERROR property=$ID harness does not build against $VERIF_REPO" >&2
  exit 2
fi
case "$ID" in
  C12|C17)
    # patched-runtime build (owned map-iteration order) of the child program
    if python3 "$HERE/maporder/patch.py" "$(go env GOROOT)" "$BIN/maporder" > "$SCRATCH/patch.log" 2>&1; then
      if ! go build -C "$HERE" -modfile="$SCRATCH/go.mod" -overlay "$BIN/maporder/overlay.json" -tags verifmap -o "$BIN/mapchild" ./cmd/mapchild 2> "$SCRATCH/build2.log"; then
        cat "$SCRATCH/build2.log" >&2
        echo "HARNESS-ERROR property=$ID mapchild does not build" >&2
        exit 2
      fi
    else
      cat "$SCRATCH/patch.log" >&2
      echo "HARNESS-ERROR property=$ID runtime map.go anchors not found" >&2
      exit 2
    fi ;;
esac
"$BIN/vcheck" "$ID" "$@"
rc=$?
exit $rc
