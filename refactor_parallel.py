#!/usr/bin/env python3
"""False-alarm test in lanes: applies each behaviour-preserving refactoring of /verif/refactorings/<name>/patch.diff
to a scratch worktree of /repo and runs the listed quick checks from a private copy of /verif. Every run must exit 0
and must not say NOT EXPLORED. Results: /verif/refactorings/results.json. usage: refactor_parallel.py [--lanes N]"""
import json, os, subprocess, sys, time, threading, queue
T = {"job": ["C14", "C13"], "server": ["C09", "C14", "C20", "C13"], "mux": ["C20", "C09"], "params": ["C16", "C10", "C09", "C13"],
     "psio": ["C11", "C15", "C19"], "main": ["C19", "C15", "C08", "C11", "C12", "C17"], "tree": ["C18", "C08"], "proving": ["C07", "C08", "C12", "C11", "C13"]}
if '--changed-only' in sys.argv:
    # the checks whose machinery changed in round five (scheduler runtime, instrumenter, new phases)
    T = {"job": ["C14", "C13"], "server": ["C14", "C20", "C13"], "mux": ["C20"], "params": ["C16", "C10"], "psio": ["C11", "C15", "C19"], "main": ["C19", "C17", "C12"], "proving": ["C07", "C12", "C13"]}
lanes = int(sys.argv[sys.argv.index('--lanes') + 1]) if '--lanes' in sys.argv else 2
q = queue.Queue()
for n, ids in T.items():
    for cid in ids: q.put((n, cid))
res, lock = {}, threading.Lock()
def lane(k):
    vd, rd = f'/tmp/rl-{k}', f'/tmp/rlrepo-{k}'
    subprocess.run(['rm', '-rf', vd]); subprocess.run(['git', '-C', '/repo', 'worktree', 'remove', '--force', rd], capture_output=True); subprocess.run(['rm', '-rf', rd])
    subprocess.run(['rsync', '-a', '--exclude', '.git', '--exclude', '.bin', '--exclude', 'replays', '--exclude', 'seeded', '--exclude', '/evidence', '/verif/', vd + '/'], check=True)
    subprocess.run(['git', '-C', '/repo', 'worktree', 'add', '--detach', '-q', rd, 'HEAD'], check=True)
    env = dict(os.environ, VERIF_DIR=vd, VERIF_REPO=rd, VERIF_EVIDENCE_DIR=vd + '/ev')
    while True:
        try: n, cid = q.get_nowait()
        except queue.Empty: break
        subprocess.run(['git', '-C', rd, 'checkout', '-q', '--', '.']); subprocess.run(['git', '-C', rd, 'clean', '-fdq'])
        if subprocess.run(['git', '-C', rd, 'apply', f'/verif/refactorings/{n}/patch.diff']).returncode != 0:
            print(n, 'patch does not apply', flush=True); continue
        t0 = time.time()
        r = subprocess.run([vd + '/check', cid, '--tier', 'quick'], cwd=vd, capture_output=True, text=True, env=env)
        out = r.stdout + r.stderr
        v = 'quiet' if r.returncode == 0 and 'NOT EXPLORED' not in out and 'VIOLATION' not in out else ('not-explored' if 'NOT EXPLORED' in out else 'ALARM' if r.returncode == 1 else f'exit {r.returncode}')
        with lock:
            res[f'{n}/{cid}'] = {"verdict": v, "seconds": round(time.time() - t0)}
            json.dump(res, open('/verif/refactorings/results.json', 'w'), indent=1, sort_keys=True)
            print(n, cid, v, round(time.time() - t0), 's', flush=True)
            if v != 'quiet': open(f'/tmp/refpar-{n}-{cid}.log', 'w').write(out)
    subprocess.run(['git', '-C', '/repo', 'worktree', 'remove', '--force', rd], capture_output=True); subprocess.run(['rm', '-rf', vd, rd])
ts = [threading.Thread(target=lane, args=(k,)) for k in range(lanes)]
[t.start() for t in ts]; [t.join() for t in ts]
subprocess.run(['git', '-C', '/repo', 'worktree', 'prune'])
