#!/bin/bash
# usage: devlane.sh <lane> <ID> [check args...]   (env VERIF_REPO selects the tree)
# Runs one check from a private copy of /verif (own .bin, own evidence dir) so that development runs do
# not collide with other runs that rebuild /verif/.bin; nothing is written under /verif.
L=$1; shift
VD=/tmp/vdev-$L
mkdir -p $VD
rsync -a --delete --exclude .git --exclude .bin --exclude replays --exclude seeded --exclude /evidence --exclude /ev /verif/ $VD/
mkdir -p $VD/ev
cd $VD && VERIF_DIR=$VD VERIF_EVIDENCE_DIR=$VD/ev ./check "$@"
