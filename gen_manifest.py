#!/usr/bin/env python3
"""Regenerates MANIFEST.json from the table below (single source of truth)."""
import json, sys
BASE = json.load(open('/root/.vp/BASELINE.json'))
ALL = ["C%02d" % i for i in range(1, 21)]
CHECKS = {
 "C18": dict(cat="model_checking", engine="seqmc",
   technique="explicit-state search: every update history up to a bound replayed on a fresh real tree vs cache-free reference",
   text="All update histories up to length 5/4/3 (quick) resp. 7/5/4/3 (thorough) at depth 1/2/3(/4) over all indices x {0,1,r-1}, and all histories up to length 2 (3) over a 6-index boundary alphabet at every depth 4..32, are executed on the real PoseidonTree; after each the root is compared with a from-scratch recomputation and the returned path must authenticate the old value against the old root and the new value against the new root.",
   note="Trusts iden3 Poseidon (also used by the tree for hashing) and collision resistance for 'untouched leaves keep their values'; histories longer than the bound and values outside the alphabet are not covered.",
   ref="DESIGN.md C18"),
}
PENDING = {}
def main():
    checks = []
    for pid in ALL:
        if pid not in CHECKS: continue
        c = CHECKS[pid]
        checks.append({
            "property_id": pid,
            "quick_cmd": "./check %s --tier quick" % pid,
            "thorough_cmd": "./check %s --tier thorough" % pid,
            "evidence_file": "/verif/evidence/%s.json" % pid,
            "replay_cmd_template": "./check %s --replay {path}" % pid,
            "engine": c["engine"],
            "level_claimed": {"category": c["cat"], "text": c["text"], "design_ref": c["ref"]},
            "level_note": c["note"],
            "technique": c["technique"],
        })
    na = [{"property_id": p, "reason": PENDING.get(p, "check not built yet in this session (planned: see DESIGN.md section 2); not claimed until it runs")} for p in ALL if p not in CHECKS]
    m = {
        "version": 1,
        "setup_cmd": "./setup.sh",
        "hooks": {
            "guard": "verif",
            "enable": "checks build /repo through a go.mod replace and, for instrumented packages, a generated `go build -tags verif -overlay` file; no source hooks are committed in /repo",
            "baseline_off_cmd": BASE["cmd"],
            "source_commits": [],
            "add_only": True,
        },
        "engines": [
            {"name": "seqmc", "path": "harness/checks", "serves_properties": ["C18"], "kind_free_text": "breadth/depth-first enumeration of operation histories on fresh real objects against reference models"},
        ],
        "checks": checks,
        "not_applicable": na,
        "notes": "All checks: ./check <ID> --tier quick|thorough [--replay file]; VERIF_REPO selects the tree (default /repo).",
    }
    json.dump(m, open('MANIFEST.json', 'w'), indent=1)
    print("claimed:", [c["property_id"] for c in checks])
main()
