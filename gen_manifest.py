#!/usr/bin/env python3
"""Regenerates MANIFEST.json from the table below (single source of truth)."""
import json, sys
BASE = json.load(open('/root/.vp/BASELINE.json'))
ALL = ["C%02d" % i for i in range(1, 21)]
CHECKS = {
 "C19": dict(cat="exploration", engine="e2e",
   technique="exhaustive decision table and command histories on the real binary built from the tree, judged by in-process verification of independently decoded proofs",
   text="setup / gen-test-params / prove / verify / convert-to-raw / export-solidity of the built binary composed through files and pipes at (2,2) (thorough +(3,1)): prove over (--mode flag x keys x params) incl. bogus/absent mode, other mode's, missing and truncated keys, garbage/empty/perturbed parameters; verify over the same (mode x keys) product and (hash x proof) incl. +1, +r, decimal, leading-zero, non-number, absent hash and 8 single-digit tamperings, {}, empty, garbage proofs and valid re-randomisations of the emitted proof in which each coordinate in turn has leading zero bytes; histories through converted keys, repeated proofs, verify without proof, other system's proof. Oracle: exit 0 <=> the independently decoded proof verifies in-process for hash mod r under the given keys; prove's stdout is exactly one JSON value + newline.",
   note="stderr content is free; gen-test-params is deterministic, so 'many independent proofs' are repeated prove runs (proof randomness), short roots are covered by C08's generator sweep.", ref="DESIGN.md C19"),

 "C09": dict(cat="model_checking", engine="schedmc+seqmc",
   technique="explicit-state search over request histories on the real server.Run (instrumented build, model network), every response judged by an independent document classifier and proof verifier",
   text="Both modes at (2,2) with real Groth16: single requests (all methods, every strict prefix of a valid document, all 1-byte bodies, all 2-byte bodies over 16 characters, 23 replacements x 6 fields, shape changes, over-long inputs, +1/+r perturbations) delivered in chunks to one server each, and all request histories of length <=2 (3 thorough) over an 8-letter alphabet on a fresh server each (state = tally of response classes); oracle = 405 / 400 malformed_body / 400 proving_error / 200 as documented, every 200 body decoded by an independent decoder and verified against the request's input hash; a panic escaping the handler or a missing response is a violation.",
   note="net/http connection handling is the vhttp model; documents with absent/null fields or under-specified numeric notation may answer any documented outcome.", ref="DESIGN.md C09"),
 "C13": dict(cat="model_checking", engine="schedmc",
   technique="stateless DFS over interleavings of two real handler threads (statement-level scheduling points, preemption bound 1/2, no pruning, one execution at a time) on the instrumented server+prover code; separate free-running -race pass",
   text="Two (three) concurrent POSTs to the real instrumented handler path (server.go, marshal.go, *_proving_system.go) sharing one real proving system at (1,1): every interleaving of statement-level steps of the handler threads with <=1 preemption (2 thorough) for request pairs taken from different tree states (so every field differs) in both orders (valid/unsatisfiable/non-numeric/wrong-dims); each response must equal what the request gets on its own, each 200 body must verify for its own input hash and not for the other's. Plus a free-running race-detector pass on real net/http (sample).",
   note="gnark/promhttp/encoding-json internals are atomic steps; connection set-up and server start/stop interleavings are frozen here (C14 explores them); memory-model effects only via the -race sample.", ref="DESIGN.md C13"),
 "C20": dict(cat="model_checking", engine="schedmc+seqmc",
   technique="explicit-state search over request histories with a scrape after every step + stateless DFS over interleavings of handler threads and scraper threads (preemption bound 1/2) on the real registry and wrapper",
   text="Sequential (also on the real binary over sockets for one mixed load): all request sequences of length <=2 (3) over {GET, HEAD, PUT, POST valid, POST unsatisfiable, POST not-JSON} on a fresh real server.Run, scraped through the real metrics handler on the metrics address after every request: per-(method, code) totals must equal the responses sent, no other pair non-zero, in-flight gauge 0. Concurrent: 2-3 clients + 0-2 scrapers, every interleaving of handler-thread steps with <=1 preemption (<=3 for cheap requests), unpruned; each scrape is judged against ground truth at the instant the metrics handler ran; exact equality at quiescence.",
   note="promhttp/prometheus internals are atomic steps; only standard methods are in the alphabet.", ref="DESIGN.md C20"),

 "C14": dict(cat="model_checking", engine="schedmc",
   technique="stateless DFS over thread interleavings of the real, instrumented server/job code under a cooperative scheduler (iterated preemption bound 0,1,2, then unbounded with state-key pruning) against a model of net/http.Server",
   text="server/job.go and server/server.go are instrumented at check time from the working tree (statement-level scheduling points; go/chan/close/<-/select/sync rewritten to scheduler-visible operations, the random choice of select and the expiry of a Shutdown context being explored decisions; http.Server replaced by a model whose steps mirror go1.23 server.go) and executed under a controlled scheduler: driver Run; RequestStop; AwaitStop; then both addresses must be unbound; 0..2 clients whose requests may be refused or, once accepted, must complete; 1..2 start/stop cycles on the same addresses. Invariants on every execution: no deadlock, no panic in start, addresses free when AwaitStop returns, accepted requests complete. All interleavings with <=1 preemption at statement level and <=2 / unbounded preemptions over shared-object operations (state-key pruning), plus 7 conformance scenarios of the model against the real net/http.Server and end-to-end SIGINT runs of the built binary.",
   note="net/http.Server is a model (vhttp); interleavings inside uninstrumented libraries are atomic; the main.go signal path is not under the explorer. Found and fixed F3.", ref="DESIGN.md C14"),

 "C12": dict(cat="exploration", engine="maporder",
   technique="exhaustive enumeration of map-iteration start positions (patched runtime, VERIF_MAPSEED) x construction paths x GOMAXPROCS in fresh processes; digest comparison",
   text="Each compilation runs in a fresh process built with a runtime whose map-iteration start is owned; product of (mode, dims) x {BuildR1CS*, Setup*, Import*Setup, CLI r1cs} x seeds (0..15 + spread; thorough 0..63 + spread) x GOMAXPROCS {1,2,16}, plus the runtime's own randomness and three compilations in one process; one SHA-256 of the serialised constraint system per (mode, dims); exactly one public input in the system, the public witness, the verifying key and the exported Solidity; deletion depth 32/33/64 refused by all three paths, 31 builds.",
   note="Seeds are uniform across iteration sites; maps larger than 8 buckets are covered for a spread of seeds only; goroutine-freeness of frontend.Compile is assumed (GOMAXPROCS varied).", ref="DESIGN.md C12"),
 "C17": dict(cat="translation_validation", engine="maporder",
   technique="per-definition comparison of the committed Lean model with ExtractLean(30,4) run on the current circuits, over enumerated map-iteration seeds x GOMAXPROCS in fresh processes",
   text="ExtractLean(30,4) executed in fresh processes for every seed x GOMAXPROCS, 3x in-process, and through the CLI; all 54 definitions (+preamble) must equal the committed FormalVerification.lean; every SemaphoreMTB.<name> referenced by the proofs must be defined; D/B in Common.lean are 30/4; determinism sweep over other (depth, batch).",
   note="The Lean proofs are not rebuilt (toolchain/dependencies not available offline); decided claim: model == extraction.", ref="DESIGN.md C17"),

 "C07": dict(cat="exploration", engine="groth16-real",
   technique="bounded-exhaustive menu: valid batches x every single-field and shape perturbation x candidate public inputs, on real Groth16 setups",
   text="Real SetupInsertion/SetupDeletion at (2,2) (thorough: +(1,1),(3,2)); valid batches from several tree states; for each, every single-field perturbation, every array-shape perturbation and a set of near-valid batches (what a circuit with a weakened range/emptiness/padding check would accept) must yield (nil, error) without panic; every returned proof is verified against a public-input menu (hash, hash mod r, +r, +3r accept; +-1, bit flips, 0, r-1, other batches' hashes reject) and against the other mode's system.",
   note="Groth16 soundness itself is out of scope; 'every other public input' is the enumerated menu.", ref="DESIGN.md C07"),
 "C08": dict(cat="exploration", engine="ref+cli",
   technique="bounded-exhaustive enumeration of byte-length classes for every packed field and of all gen-test-params dimensions vs the packing written from the statement",
   text="Both helpers on every pair of big-endian byte lengths 0..32 of (preRoot, postRoot), batch sizes {0,1,2,3,19}, index extremes; gen-test-params of the built binary for every (mode, depth 1..32, batch 1..4 (8)) the tree can hold, emitted hash compared with Keccak of the canonical packing and, for affordable dimensions, the emitted set run through the real circuit in the engine.",
   note="That the circuit enforces this packing is C03's subject. Found and fixed F1 (unpadded roots).", ref="DESIGN.md C08"),
 "C10": dict(cat="exploration", engine="ref",
   technique="bounded-exhaustive product of coordinate-length classes over synthetic curve-point proofs + real proofs until short coordinates occur",
   text="All combinations (A,B,C) of representative points, one per coordinate-length class found among k*G1,k*G2 (k<=4000/40000), so each of the 8 JSON slots is exercised short and long; JSON must carry the coordinates read from gnark's struct fields in EVM order as 0x-hex; decode(encode(p)) == p; real (1,1) proofs (plus valid re-randomisations with every coordinate short in turn) must still verify after the round trip.",
   note="Trusts gnark-crypto point encoding. Found and fixed F2 (left-aligned slots).", ref="DESIGN.md C10"),
 "C11": dict(cat="exploration", engine="seqmc",
   technique="explicit-state search over chains of write/read/convert operations on real proving systems; every reached state compared with the origin",
   text="From fresh setups of both modes at (1,2) (thorough +(3,2),(2,3)): all chains of length 1 and selected (thorough: all) chains of length 2(3) over {compressed, raw} x {memory, file} and the CLI convert-to-raw (to another file and in place); each reached system must keep depth/batch, re-serialise byte-identically, prove a batch the original verifies and verify the original's proof.",
   note="Byte equality of the raw re-serialisation stands for key/constraint-system equality.", ref="DESIGN.md C11"),
 "C15": dict(cat="fault_enumeration", engine="fault-enum",
   technique="exhaustive crash-point enumeration: every byte offset of a small proving-system file, structural cut points of real files, CLI on cut files",
   text="Every strict prefix of a structurally identical small system in both formats through UnsafeReadFrom and ReadSystemFromFile; for real (1,1) systems all section boundaries +-k, all offsets where the write size changes, head and tail; CLI start/prove/verify/export-solidity/convert-to-raw on cut files must exit non-zero, never serve, never leave a loadable output. Oracle: error, no panic, no hang (10 min liveness guard).",
   note="Every-byte exhaustiveness is on the small system; the real files are cut at structural points.", ref="DESIGN.md C15"),
 "C16": dict(cat="exploration", engine="ref",
   technique="bounded-exhaustive enumeration: all strings of length <=4 over a 15-letter alphabet in every numeric field, pairwise value table over all ragged shapes",
   text="Round trip of insertion and deletion parameters over every ragged shape with batch, depth in {0,1,2}, every field taking every value of a 12-element alphabet (0..2^300) while others cycle (pairwise), nil vs empty slices; acceptance of 54k strings per numeric field and JSON scalars in index fields against a three-valued number oracle (unspecified notations are not judged).",
   note="Decimal and 0x-lowercase-hex count as numbers; other Go prefix notations are unjudged.", ref="DESIGN.md C16"),

 "C01": dict(cat="model_checking", engine="r1csmc+enginemc",
   technique="explicit-state search of the compiled R1CS (all hint-wire values over F_47; hint adversary on BN254) + bounded-exhaustive engine runs vs the relation of the statement",
   text="(1) InsertionRound/InsertionProof compiled over the 47-element field: every input assignment of the stated product space, with every value of every prover-chosen wire explored (dead states pruned by violated constraints); the set of reachable outputs must equal the reference. (2) the full InsertionMbuCircuit.Define (Keccak included) over the whole field F_5 (F_7 thorough). (3) BN254: every leaf-vector state over {0,1,r-1} at depth 1,2 (3 thorough) x an operation menu (start-index alphabet incl. 2^d, 2^32, r-1; commitments; genuine/stale/corrupted/reused paths; post-root variants) on the InsertionProof gadget, boundary depths 16/31/32, and the compiled BuildR1CSInsertion system solved with a deviation-bounded hint adversary and re-checked by an independent evaluator.",
   note="Whole-field exhaustiveness is over F_5/F_7/F_47; BN254 values range over alphabets; depths other than 1,2,3,16,31,32 rely on the circuit being the d-fold iteration of one round. Trusts gnark's frontend/engine and iden3 Poseidon as reference.",
   ref="DESIGN.md C01"),
 "C02": dict(cat="model_checking", engine="r1csmc+enginemc",
   technique="explicit-state search of the compiled R1CS (all hint-wire values incl. the is-zero inverse over F_47; hint adversary on BN254) + bounded-exhaustive engine runs vs the relation of the statement",
   text="Same three explorations as C01 for DeletionRound/DeletionProof/DeletionMbuCircuit: complete F_47 input products with all prover-chosen wire values; full Define over F_5; BN254 all leaf-vector states x index-vector menu (distinct, duplicated, empty, padding, >= 2^(d+1), 2^32-1, r-1) x presented value/path/padding-content variants; boundary depths 16/30/31; compiled BuildR1CSDeletion with hint adversary.",
   note="As C01.", ref="DESIGN.md C02"),
 "C03": dict(cat="exploration", engine="enginemc+r1csmc",
   technique="bounded-exhaustive engine runs over byte-length classes/perturbations + explicit search of the compiled system with every alternative decomposition v+k*r at every 256-bit hint site",
   text="Full circuits on BN254: (A) all-padding deletion batches (roots free) and insertions into the empty tree (commitments free) over a field alphabet containing every big-endian byte length, batch sizes hitting one/two Keccak blocks, each with canonical hash (accept), hash+1, and hash-preserving single-field perturbations (reject); (B) compiled systems where bit-decomposition hint sites may answer with any boolean solution v+k*r<2^256 (complete set) or non-boolean digits, public input = Keccak of the forged packing: must be unsatisfiable.",
   note="Adversary alphabet per hint site is complete for boolean recompositions; deviation bound 1 (2 for the double-root forgery). Keccak reference x/crypto.", ref="DESIGN.md C03"),
 "C04": dict(cat="exploration", engine="enginemc",
   technique="bounded-exhaustive enumeration of message lengths x domains x content classes through the gadget vs x/crypto sha3",
   text="Every listed message length (quick: around 3 rate boundaries + production lengths; thorough: every length 0..409 and all production lengths b<=32) x {Keccak, SHA3} x content classes, each with the reference digest (must accept) and flipped digest bits (must reject); boundary lengths also compiled to R1CS and evaluated by the independent evaluator; the compiled system is checked to contain no hints.",
   note="Contents range over 5 classes per length, not all messages.", ref="DESIGN.md C04"),
 "C05": dict(cat="exploration", engine="enginemc+r1csmc",
   technique="bounded-exhaustive pairs/singletons/call-sequences through the gadgets vs iden3 (BN254) and a textbook Poseidon (whole small fields); complete R1CS search over F_47",
   text="All ordered pairs of a ~290-element BN254 alphabet (boundaries, all byte lengths, all powers of two, seeded) for Poseidon2 and all elements for Poseidon1 vs iden3; all call sequences of length <=3 on shared variables in one circuit; all pairs of F_5,7,11,13 (+17,31,61,127 thorough) vs a textbook model; compiled R1CS over F_47 for all 47^2 pairs with complete search (output set must be exactly the reference).",
   note="'All field elements' is checked on the alphabet, not proved.", ref="DESIGN.md C05"),
 "C06": dict(cat="exploration", engine="r1csmc+enginemc",
   technique="complete R1CS search over F_47 (all digit/hint values) + exhaustive digit vectors over 12 small primes + every first-difference position on BN254",
   text="ToReducedBigEndian/ReducedModRCheck/FromBinaryBigEndian: F_47 compiled systems with every value of every digit wire; 12 primes x widths 8/16(/24): all boolean vectors, non-boolean digits, all values; BN254 256-digit vectors differing from the modulus first at each position 0..255 in both directions with 4 lower-bit fillings, non-boolean digits, special values, in the engine and in the compiled system.",
   note="Engine runs use honest hints; the adversarial part is the F_47 search and direct feeding of digit vectors.", ref="DESIGN.md C06"),

 "C18": dict(cat="model_checking", engine="seqmc",
   technique="explicit-state search: every update history up to a bound replayed on a fresh real tree vs cache-free reference",
   text="All update histories up to length 5/4/3 (quick) resp. 7/5/4/3 (thorough) at depth 1/2/3(/4) over all indices x {0,1,r-1, hashes that occur inside the tree (empty-subtree hashes, current root, current sibling)}, and all histories up to length 2 (3) over a 6-index boundary alphabet at every depth 4..32, are executed on the real PoseidonTree; after each the root is compared with a from-scratch recomputation and the returned path must authenticate the old value against the old root and the new value against the new root.",
   note="Trusts iden3 Poseidon (also used by the tree for hashing) and collision resistance for 'untouched leaves keep their values'; histories longer than the bound and values outside the alphabet are not covered.",
   ref="DESIGN.md C18"),
}

# additions of the later rounds (appended to the level text / technique of the named checks)
CC = " Plus a concurrent-callers phase: the checked code is instrumented (go build -overlay) and two threads run it on different values under the cooperative scheduler; every interleaving with <=1 preemption (<=2 when an execution has <=250 scheduling points) is enumerated and each thread's result must equal the sequential one."
EXTRA_TEXT = {
 "C01": " The compiled circuit is also judged in a non-initial compiler state ((11,2) after (1,12) was compiled in the same process)." + CC,
 "C02": " The compiled circuit is also judged in a non-initial compiler state ((11,2) after (1,12) was compiled in the same process)." + CC,
 "C04": CC + " (Keccak: function-level scheduling points; round-reduced sponge instances against a round-reduced reference, 24 rounds in the thorough tier.)",
 "C05": CC, "C06": CC, "C08": CC, "C10": CC,
 "C11": " Short chains at extreme dimensions (insertion depth 32; a padded deletion batch larger than the tree) with valid batches from a sparse reference tree; CLI convert onto an existing output file.",
 "C12": " Compile histories: a sequence of dimensions compiled in ONE process ((1,12),(11,2),(2,1),(1,2),(12,1),(1,12)) must give, step by step, the digests of fresh-process builds.",
 "C13": " Goroutines started from init() run as daemon threads of every execution, package-level variables are reset per execution, alternatives are explored cheapest-first (all executions with k preemptions before any with k+1); plus the library-helper pair scenarios (Proof.MarshalJSON/UnmarshalJSON, ComputeInputHash*, parameter JSON) at <=2 preemptions.",
 "C17": " CLI regeneration histories: extract-circuit over an output path that already holds a longer / equal / shorter model or stale bytes must leave exactly the fresh extraction.",
 "C19": " Keys files as an interrupted setup leaves them (empty, 4-byte and 8-byte header, last 4 KiB missing) in the prove and verify tables.",
 "C20": " Availability under load: 1/4/5 (9/17 thorough) requests held inside the /prove handler by a stalled request body, then a scrape of the metrics address that must be answered and report exactly that many in flight.",
}
for k, t in EXTRA_TEXT.items():
    CHECKS[k]["text"] += t
# round five
SWEEP = " Dimension sweep: every depth 1..32 (deletion 1..31) x a batch-size set containing every size <= 9 and both sides of 16 (thorough: every size <= 34 and 63..65), with the defect placed in the LAST slot / the TOP path level (occupied last leaf, one past the end, wrong last item, corrupted top sibling, padding variants), on the gadget, and the whole Define at 7-11 diagonal dimensions up to (30,4)/(32,2)."
EXTRA5 = {
 "C01": SWEEP, "C02": SWEEP,
 "C03": " Plus a concurrent whole-circuit phase: the circuit files are instrumented and two threads run the full Define of different shapes ((2,2) next to (1,1); insertion next to deletion) under the cooperative scheduler, every interleaving with <=1 preemption; each must decide its batch as it does alone.",
 "C06": " Call sequences: every sequence of <=3 (4) FromBinaryBigEndian / ToReducedBigEndian calls on shared variables inside one circuit over several fields and widths; each call must give its own result and the caller's bit string must be left as passed.",
 "C07": " Plus a concurrent-callers phase on the prover itself: two threads call ProveInsertion on one proving system with parameter sets that collide on the input hash (valid next to invalid), every interleaving with <=1 preemption of the instrumented prover package (files a changed tree adds included).",
 "C08": " Helper-versus-circuit agreement: valid batches at depths {2,8,9,17,25,32} (thorough 12 depths) x positions whose 32-bit encodings have 1..4 significant bytes (palindromic and not), input hash from the library helper, whole Define in the engine must accept.",
 "C10": " Histories on ONE Proof value: every sequence of <=4 (5) operations over {assign proof i, decode the JSON of proof i into the value, marshal} on three proofs; the value must always marshal as the proof it holds.",
 "C11": " Write-fault enumeration: every Write call of the serialisation of a small system and the structural calls (first/last, every change of write size) of a real one fail once / as a short write / for ever, in both formats: the writer must report an error or have written the complete file; the CLI writing to a full device must not exit 0.",
 "C12": " Longer in-process compile histories (deeper then shallower, larger batch then smaller, repeats) and an overlapping-builds phase: two BuildR1CS* calls of different dimensions / modes as two threads under the cooperative scheduler (build entry points and Define instrumented), every interleaving with <=1 preemption; each must give the digest it gives alone.",
 "C13": " Request twins that collide with a valid request on everything but one field (same declared input hash with one sibling changed; same batch under another declared hash) are explored first; files a changed tree adds to the server / prover packages are instrumented too.",
 "C14": " Goroutines of the code under check that outlive every harness thread are leaks, not deadlocks; net/http's RegisterOnShutdown is modelled; every (plan, scenario) gets a share of the budget; the end-to-end SIGINT runs hold 1, 2 and 3 prove requests in flight.",
 "C15": " File lengths that are multiples of 2^9..2^25 (first/last two multiples of each, every multiple of 4 MiB and above; thorough every multiple of 1 MiB) through ReadSystemFromFile and the reader: a block-wise reader meets 'the file ends exactly at a block end' only there; the hang deadline is 60x the measured duration of reading the complete file, confirmed by a second run.",
 "C16": " Decoding into a value that already holds another parameter set, for every ordered pair of the 13 ragged shapes, both modes.",
 "C17": " In-process extraction histories: ExtractLean(30,4) after deeper / shallower / other-batch extractions and after circuit builds in the same process must still be the committed model.",
 "C19": " Setup histories: `setup` onto an --output path that already holds the other mode's keys of the same dimensions, an interrupted earlier setup, (thorough) the same mode's keys or a bare header; after exit 0 the pipeline of that mode must work with the file.",
 "C20": " Body-size classes just above 1, 8 and 32 MiB (thorough also 5, 17, 65 MiB and a GET with a body) as single requests and inside a history: whatever is answered must be counted.",
}
for k, t in EXTRA5.items():
    CHECKS[k]["text"] += t
for k in ["C03", "C07", "C12"]:
    CHECKS[k]["technique"] += "; plus stateless DFS over the interleavings of two threads running the instrumented code (preemption bound 1) with a differential oracle"
    CHECKS[k]["engine"] += "+schedmc"
CHECKS["C11"]["technique"] += "; plus fault enumeration over the Write calls of the serialisation"
for k in ["C01", "C02", "C04", "C05", "C06", "C08", "C10"]:
    CHECKS[k]["technique"] += "; plus stateless DFS over the interleavings of two threads running the instrumented code (preemption bound 1/2) with a differential oracle"
    CHECKS[k]["engine"] += "+schedmc"
PENDING = {}
def main():
    checks = []
    for pid in ALL:
        if pid not in CHECKS: continue
        c = CHECKS[pid]
        checks.append({
            "property_id": pid,
            "quick_cmd": "./check %s --tier quick" % pid,
            "thorough_cmd": "./check %s --tier thorough" % pid,
            "evidence_file": "/verif/evidence/%s.json" % pid,
            "replay_cmd_template": "./check %s --replay {path}" % pid,
            "engine": c["engine"],
            "level_claimed": {"category": c["cat"], "text": c["text"], "design_ref": c["ref"]},
            "level_note": c["note"],
            "technique": c["technique"],
        })
    na = [{"property_id": p, "reason": PENDING.get(p, "check not built yet in this session (planned: see DESIGN.md section 2); not claimed until it runs")} for p in ALL if p not in CHECKS]
    m = {
        "version": 1,
        "setup_cmd": "./setup.sh",
        "hooks": {
            "guard": "verif",
            "enable": "checks build /repo through a go.mod replace and, for instrumented packages, a generated `go build -tags verif -overlay` file; no source hooks are committed in /repo",
            "baseline_off_cmd": BASE["cmd"],
            "source_commits": [],
            "add_only": True,
        },
        "engines": [
            {"name": "seqmc", "path": "harness/checks", "serves_properties": ["C18"], "kind_free_text": "breadth/depth-first enumeration of operation histories on fresh real objects against reference models"},
            {"name": "r1csmc", "path": "harness/r1csmc", "serves_properties": ["C01", "C02", "C03", "C04", "C05", "C06"], "kind_free_text": "explicit-state search over a compiled R1CS: partial wire assignments, forced propagation, adversary choices for unforced/hint wires, independent constraint evaluator"},
            {"name": "groth16-real", "path": "harness/checks", "serves_properties": ["C07", "C10", "C11", "C15"], "kind_free_text": "bounded-exhaustive menus and operation chains on real Groth16 setups, proofs and key files"},
            {"name": "maporder", "path": "harness/maporder", "serves_properties": ["C12", "C17"], "kind_free_text": "go build -overlay of runtime/map.go making the random start of every map iteration an enumerable input; child processes per seed"},
            {"name": "schedmc", "path": "harness/verifrt", "serves_properties": ["C14", "C13", "C09", "C20", "C01", "C02", "C03", "C04", "C05", "C06", "C07", "C08", "C10", "C12"], "kind_free_text": "AST instrumenter + cooperative scheduler + stateless DFS explorer (preemption bounding, state-key pruning) + model of net/http.Server, run on the repository's own server code via go build -overlay"},
            {"name": "e2e", "path": "harness/checks/cli.go", "serves_properties": ["C19", "C08", "C11", "C12", "C15", "C17"], "kind_free_text": "drivers for the real binary built from the working tree (files, pipes, exit status)"},
            {"name": "enginemc", "path": "harness/gad", "serves_properties": ["C01", "C02", "C03", "C04", "C05", "C06"], "kind_free_text": "bounded-exhaustive evaluation of repo gadgets / full Define in gnark's test engine over small whole fields and BN254 alphabets"},
        ],
        "checks": checks,
        "not_applicable": na,
        "notes": "All checks: ./check <ID> --tier quick|thorough [--replay file]; VERIF_REPO selects the tree (default /repo).",
    }
    json.dump(m, open('MANIFEST.json', 'w'), indent=1)
    print("claimed:", [c["property_id"] for c in checks])
main()
