#!/usr/bin/env python3
"""Regenerates MANIFEST.json from the table below (single source of truth)."""
import json, sys
BASE = json.load(open('/root/.vp/BASELINE.json'))
ALL = ["C%02d" % i for i in range(1, 21)]
CHECKS = {
 "C01": dict(cat="model_checking", engine="r1csmc+enginemc",
   technique="explicit-state search of the compiled R1CS (all hint-wire values over F_47; hint adversary on BN254) + bounded-exhaustive engine runs vs the relation of the statement",
   text="(1) InsertionRound/InsertionProof compiled over the 47-element field: every input assignment of the stated product space, with every value of every prover-chosen wire explored (dead states pruned by violated constraints); the set of reachable outputs must equal the reference. (2) the full InsertionMbuCircuit.Define (Keccak included) over the whole field F_5 (F_7 thorough). (3) BN254: every leaf-vector state over {0,1,r-1} at depth 1,2 (3 thorough) x an operation menu (start-index alphabet incl. 2^d, 2^32, r-1; commitments; genuine/stale/corrupted/reused paths; post-root variants) on the InsertionProof gadget, boundary depths 16/31/32, and the compiled BuildR1CSInsertion system solved with a deviation-bounded hint adversary and re-checked by an independent evaluator.",
   note="Whole-field exhaustiveness is over F_5/F_7/F_47; BN254 values range over alphabets; depths other than 1,2,3,16,31,32 rely on the circuit being the d-fold iteration of one round. Trusts gnark's frontend/engine and iden3 Poseidon as reference.",
   ref="DESIGN.md C01"),
 "C02": dict(cat="model_checking", engine="r1csmc+enginemc",
   technique="explicit-state search of the compiled R1CS (all hint-wire values incl. the is-zero inverse over F_47; hint adversary on BN254) + bounded-exhaustive engine runs vs the relation of the statement",
   text="Same three explorations as C01 for DeletionRound/DeletionProof/DeletionMbuCircuit: complete F_47 input products with all prover-chosen wire values; full Define over F_5; BN254 all leaf-vector states x index-vector menu (distinct, duplicated, empty, padding, >= 2^(d+1), 2^32-1, r-1) x presented value/path/padding-content variants; boundary depths 16/30/31; compiled BuildR1CSDeletion with hint adversary.",
   note="As C01.", ref="DESIGN.md C02"),
 "C03": dict(cat="exploration", engine="enginemc+r1csmc",
   technique="bounded-exhaustive engine runs over byte-length classes/perturbations + explicit search of the compiled system with every alternative decomposition v+k*r at every 256-bit hint site",
   text="Full circuits on BN254: (A) all-padding deletion batches (roots free) and insertions into the empty tree (commitments free) over a field alphabet containing every big-endian byte length, batch sizes hitting one/two Keccak blocks, each with canonical hash (accept), hash+1, and hash-preserving single-field perturbations (reject); (B) compiled systems where bit-decomposition hint sites may answer with any boolean solution v+k*r<2^256 (complete set) or non-boolean digits, public input = Keccak of the forged packing: must be unsatisfiable.",
   note="Adversary alphabet per hint site is complete for boolean recompositions; deviation bound 1 (2 for the double-root forgery). Keccak reference x/crypto.", ref="DESIGN.md C03"),
 "C04": dict(cat="exploration", engine="enginemc",
   technique="bounded-exhaustive enumeration of message lengths x domains x content classes through the gadget vs x/crypto sha3",
   text="Every listed message length (quick: around 3 rate boundaries + production lengths; thorough: every length 0..409 and all production lengths b<=32) x {Keccak, SHA3} x content classes, each with the reference digest (must accept) and flipped digest bits (must reject); boundary lengths also compiled to R1CS and evaluated by the independent evaluator; the compiled system is checked to contain no hints.",
   note="Contents range over 5 classes per length, not all messages.", ref="DESIGN.md C04"),
 "C05": dict(cat="exploration", engine="enginemc+r1csmc",
   technique="bounded-exhaustive pairs/singletons/call-sequences through the gadgets vs iden3 (BN254) and a textbook Poseidon (whole small fields); complete R1CS search over F_47",
   text="All ordered pairs of a ~290-element BN254 alphabet (boundaries, all byte lengths, all powers of two, seeded) for Poseidon2 and all elements for Poseidon1 vs iden3; all call sequences of length <=3 on shared variables in one circuit; all pairs of F_5,7,11,13 (+17,31,61,127 thorough) vs a textbook model; compiled R1CS over F_47 for all 47^2 pairs with complete search (output set must be exactly the reference).",
   note="'All field elements' is checked on the alphabet, not proved.", ref="DESIGN.md C05"),
 "C06": dict(cat="exploration", engine="r1csmc+enginemc",
   technique="complete R1CS search over F_47 (all digit/hint values) + exhaustive digit vectors over 12 small primes + every first-difference position on BN254",
   text="ToReducedBigEndian/ReducedModRCheck/FromBinaryBigEndian: F_47 compiled systems with every value of every digit wire; 12 primes x widths 8/16(/24): all boolean vectors, non-boolean digits, all values; BN254 256-digit vectors differing from the modulus first at each position 0..255 in both directions with 4 lower-bit fillings, non-boolean digits, special values, in the engine and in the compiled system.",
   note="Engine runs use honest hints; the adversarial part is the F_47 search and direct feeding of digit vectors.", ref="DESIGN.md C06"),

 "C18": dict(cat="model_checking", engine="seqmc",
   technique="explicit-state search: every update history up to a bound replayed on a fresh real tree vs cache-free reference",
   text="All update histories up to length 5/4/3 (quick) resp. 7/5/4/3 (thorough) at depth 1/2/3(/4) over all indices x {0,1,r-1}, and all histories up to length 2 (3) over a 6-index boundary alphabet at every depth 4..32, are executed on the real PoseidonTree; after each the root is compared with a from-scratch recomputation and the returned path must authenticate the old value against the old root and the new value against the new root.",
   note="Trusts iden3 Poseidon (also used by the tree for hashing) and collision resistance for 'untouched leaves keep their values'; histories longer than the bound and values outside the alphabet are not covered.",
   ref="DESIGN.md C18"),
}
PENDING = {}
def main():
    checks = []
    for pid in ALL:
        if pid not in CHECKS: continue
        c = CHECKS[pid]
        checks.append({
            "property_id": pid,
            "quick_cmd": "./check %s --tier quick" % pid,
            "thorough_cmd": "./check %s --tier thorough" % pid,
            "evidence_file": "/verif/evidence/%s.json" % pid,
            "replay_cmd_template": "./check %s --replay {path}" % pid,
            "engine": c["engine"],
            "level_claimed": {"category": c["cat"], "text": c["text"], "design_ref": c["ref"]},
            "level_note": c["note"],
            "technique": c["technique"],
        })
    na = [{"property_id": p, "reason": PENDING.get(p, "check not built yet in this session (planned: see DESIGN.md section 2); not claimed until it runs")} for p in ALL if p not in CHECKS]
    m = {
        "version": 1,
        "setup_cmd": "./setup.sh",
        "hooks": {
            "guard": "verif",
            "enable": "checks build /repo through a go.mod replace and, for instrumented packages, a generated `go build -tags verif -overlay` file; no source hooks are committed in /repo",
            "baseline_off_cmd": BASE["cmd"],
            "source_commits": [],
            "add_only": True,
        },
        "engines": [
            {"name": "seqmc", "path": "harness/checks", "serves_properties": ["C18"], "kind_free_text": "breadth/depth-first enumeration of operation histories on fresh real objects against reference models"},
            {"name": "r1csmc", "path": "harness/r1csmc", "serves_properties": ["C01", "C02", "C03", "C04", "C05", "C06"], "kind_free_text": "explicit-state search over a compiled R1CS: partial wire assignments, forced propagation, adversary choices for unforced/hint wires, independent constraint evaluator"},
            {"name": "enginemc", "path": "harness/gad", "serves_properties": ["C01", "C02", "C03", "C04", "C05", "C06"], "kind_free_text": "bounded-exhaustive evaluation of repo gadgets / full Define in gnark's test engine over small whole fields and BN254 alphabets"},
        ],
        "checks": checks,
        "not_applicable": na,
        "notes": "All checks: ./check <ID> --tier quick|thorough [--replay file]; VERIF_REPO selects the tree (default /repo).",
    }
    json.dump(m, open('MANIFEST.json', 'w'), indent=1)
    print("claimed:", [c["property_id"] for c in checks])
main()
