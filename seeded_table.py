#!/usr/bin/env python3
"""Regenerates the table of seeded changes in DESIGN.md (between the seeded-table markers) from
/verif/seeded/*/meta.json (run seeded_meta.py first)."""
import json, os, re
rows = []
for name in sorted(os.listdir('/verif/seeded')):
    mp = f'/verif/seeded/{name}/meta.json'
    if not os.path.exists(mp): continue
    m = json.load(open(mp))
    det = m.get('detected_by_as_measured')
    cells = []
    if isinstance(det, dict):
        own = m['property']
        for cid in sorted(det, key=lambda c: (c != own, c)):
            v = det[cid]
            cells.append(f"{cid} {v['verdict']} ({v['seconds']}s)")
    esc = lambda t: str(t).replace('|', '\\|').replace('\n', ' ')
    rows.append(f"| {name} | {esc(m['what_changed'])} | {esc(m['needs_to_manifest'])} | {esc('; '.join(cells))} | {esc(m['machinery_strengthened_because_of_it'] or '—')} |")
table = "| seeded change | what was changed | needs, to manifest | quick checks run against it (final machinery, measured) | machinery strengthened because of it |\n|---|---|---|---|---|\n" + "\n".join(rows) + "\n"
s = open('/verif/DESIGN.md').read()
a = s.index('<!-- seeded-table:begin -->') + len('<!-- seeded-table:begin -->\n')
b = s.index('<!-- seeded-table:end -->')
open('/verif/DESIGN.md', 'w').write(s[:a] + table + s[b:])
print(len(rows), 'rows')
