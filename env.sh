# sourced by every script: offline Go environment
export GOFLAGS=-mod=mod GOPROXY=off GOSUMDB=off GOTOOLCHAIN=local
export VERIF_DIR="${VERIF_DIR:-/verif}"
export VERIF_REPO="${VERIF_REPO:-/repo}"
