#!/bin/bash
# usage: seeded_run.sh <patch.diff> <ID> [tier]   -- apply a seeded change to /repo, run the check, undo.
P=$1; ID=$2; T=${3:-quick}
cd /repo || exit 2
if ! git diff --quiet; then echo "/repo is dirty"; exit 2; fi
git apply "$P" || { echo "patch does not apply"; exit 3; }
cd /verif && VERIF_EVIDENCE_DIR=/tmp/verif-mutant-evidence ./check $ID --tier $T > /tmp/seeded_$ID.log 2>&1; rc=$?
git -C /repo checkout -- . 
echo "check $ID rc=$rc"; grep -c "^VIOLATION" /tmp/seeded_$ID.log; grep -m3 "what=" /tmp/seeded_$ID.log | cut -c1-300; tail -1 /tmp/seeded_$ID.log | cut -c1-200
