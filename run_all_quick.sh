#!/bin/bash
# Runs every quick check on the current /repo tree (sequentially) and validates the evidence files.
cd /verif
for i in 01 02 03 04 05 06 07 08 09 10 11 12 13 14 15 16 17 18 19 20; do
  t0=$(date +%s); ./check C$i --tier quick > /tmp/allq_C$i.log 2>&1; rc=$?; t1=$(date +%s)
  echo "C$i rc=$rc $((t1-t0))s $(grep -c '^VIOLATION' /tmp/allq_C$i.log) violations"
done
python3-vt - <<'PY'
import json,jsonschema,glob
sch=json.load(open('/root/.vp/EVIDENCE.schema.json'))
for f in sorted(glob.glob('/verif/evidence/*.json')):
    e=json.load(open(f))
    try:
        jsonschema.validate(e, sch); print(f,'valid', 'violations=%s'%e.get('violations'), 'wall=%.0f'%e['wall_s'])
    except Exception as ex:
        print(f,'INVALID',str(ex)[:160])
PY
