#!/usr/bin/env python3
"""Re-runs every seeded change against the quick check of its own property (or all listed checks with
--all), LANES at a time. Each lane has its own copy of /verif (so the built binaries do not collide)
and its own scratch worktree of /repo; /repo itself is not touched. Results go to
/verif/seeded/<name>/detection.json. usage: seeded_parallel.py [--all] [--lanes N] [name ...]"""
import json, os, subprocess, sys, time, threading, queue, shutil
args = sys.argv[1:]
allc = '--all' in args
lanes = 4
if '--lanes' in args:
    lanes = int(args[args.index('--lanes') + 1]); del args[args.index('--lanes'):args.index('--lanes') + 2]
only = [a for a in args if not a.startswith('--')]
checks = json.load(open('/verif/seeded_checks.json'))
q = queue.Queue()
for name, ids in checks.items():
    if only and name not in only: continue
    if not os.path.exists(f'/verif/seeded/{name}/patch.diff'): continue
    for cid in (ids if allc else ids[:1]):
        q.put((name, cid))
lock = threading.Lock()
def lane(k):
    vd, rd = f'/tmp/vl-{k}', f'/tmp/vlrepo-{k}'
    subprocess.run(['rm', '-rf', vd]); subprocess.run(['git', '-C', '/repo', 'worktree', 'remove', '--force', rd], capture_output=True); subprocess.run(['rm', '-rf', rd])
    subprocess.run(['rsync', '-a', '--exclude', '.git', '--exclude', '.bin', '--exclude', 'replays', '--exclude', 'seeded', '--exclude', 'evidence', '/verif/', vd + '/'], check=True)
    subprocess.run(['git', '-C', '/repo', 'worktree', 'add', '--detach', '-q', rd, 'HEAD'], check=True)
    env = dict(os.environ, VERIF_DIR=vd, VERIF_REPO=rd, VERIF_EVIDENCE_DIR=vd + '/ev')
    while True:
        try: name, cid = q.get_nowait()
        except queue.Empty: break
        d = f'/verif/seeded/{name}'
        subprocess.run(['git', '-C', rd, 'checkout', '-q', '--', '.']); subprocess.run(['git', '-C', rd, 'clean', '-fdq'])
        if subprocess.run(['git', '-C', rd, 'apply', d + '/patch.diff']).returncode != 0:
            print(name, 'patch does not apply', flush=True); continue
        t0 = time.time()
        r = subprocess.run([vd + '/check', cid, '--tier', 'quick'], cwd=vd, capture_output=True, text=True, env=env)
        out = r.stdout + r.stderr
        nviol = out.count('\nVIOLATION') + (1 if out.startswith('VIOLATION') else 0)
        msg = ''
        for line in out.split('\n'):
            if line.strip().startswith('what='):
                msg = line.strip()[5:300]; break
        verdict = 'detected' if r.returncode == 1 and nviol > 0 else ('not-explored' if 'NOT EXPLORED' in out else ('missed' if r.returncode == 0 else 'harness-error'))
        with lock:
            det = json.load(open(d + '/detection.json')) if os.path.exists(d + '/detection.json') else {}
            det[cid] = {"verdict": verdict, "exit": r.returncode, "violations_printed": nviol, "seconds": round(time.time() - t0), "first_message": msg}
            json.dump(det, open(d + '/detection.json', 'w'), indent=1)
            print(name, cid, verdict, det[cid]['seconds'], 's', flush=True)
            if verdict != 'detected':
                open(f'/tmp/seedpar-{name}-{cid}.log', 'w').write(out)
    subprocess.run(['git', '-C', '/repo', 'worktree', 'remove', '--force', rd], capture_output=True); subprocess.run(['rm', '-rf', vd, rd])
ts = [threading.Thread(target=lane, args=(k,)) for k in range(lanes)]
[t.start() for t in ts]; [t.join() for t in ts]
subprocess.run(['git', '-C', '/repo', 'worktree', 'prune'])
