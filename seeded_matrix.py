#!/usr/bin/env python3
"""For every seeded change: apply it to /repo, run the listed checks (quick), undo; record what each check
actually reported in /verif/seeded/<name>/detection.json. Needs exclusive use of /repo."""
import json, os, subprocess, sys, time
checks = json.load(open('/verif/seeded_checks.json'))
only = sys.argv[1:]
for name, ids in checks.items():
    d = '/verif/seeded/' + name
    if only and name not in only: continue
    if not os.path.exists(d + '/patch.diff'): continue
    det = {}
    if os.path.exists(d + '/detection.json'):
        det = json.load(open(d + '/detection.json'))
    for cid in ids:
        if cid in det and not only: continue
        if subprocess.run(['git', '-C', '/repo', 'diff', '--quiet']).returncode != 0:
            print('/repo dirty'); sys.exit(2)
        if subprocess.run(['git', '-C', '/repo', 'apply', d + '/patch.diff']).returncode != 0:
            print(name, 'patch does not apply'); break
        t0 = time.time()
        r = subprocess.run(['./check', cid, '--tier', 'quick'], cwd='/verif', capture_output=True, text=True, env=dict(os.environ, VERIF_EVIDENCE_DIR='/tmp/verif-mutant-evidence'))
        subprocess.run(['git', '-C', '/repo', 'checkout', '--', '.'])
        out = r.stdout + r.stderr
        nviol = out.count('\nVIOLATION') + (1 if out.startswith('VIOLATION') else 0)
        msg = ''
        for line in out.split('\n'):
            if line.strip().startswith('what='):
                msg = line.strip()[5:300]; break
        verdict = 'detected' if r.returncode == 1 and nviol > 0 else ('not-explored' if 'NOT EXPLORED' in out else ('missed' if r.returncode == 0 else 'harness-error'))
        det[cid] = {"verdict": verdict, "exit": r.returncode, "violations_printed": nviol, "seconds": round(time.time() - t0), "first_message": msg}
        json.dump(det, open(d + '/detection.json', 'w'), indent=1)
        print(name, cid, verdict, det[cid]['seconds'], 's', flush=True)
