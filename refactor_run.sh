#!/bin/bash
# usage: refactor_run.sh <patch.diff> <ID>...  -- apply a behaviour-preserving refactoring to /repo, run the checks (must all exit 0), undo.
P=$1; shift
cd /repo || exit 2
git diff --quiet || { echo "/repo dirty"; exit 2; }
git apply "$P" || { echo "patch does not apply"; exit 3; }
for ID in "$@"; do
  t0=$(date +%s)
  (cd /verif && VERIF_EVIDENCE_DIR=/tmp/verif-refactor-evidence ./check $ID --tier quick > /tmp/refactor_$ID.log 2>&1); rc=$?
  echo "  $ID rc=$rc $(( $(date +%s)-t0 ))s $(grep -c '^VIOLATION' /tmp/refactor_$ID.log) violations $(grep -c 'NOT EXPLORED' /tmp/refactor_$ID.log) not-explored"
  if [ $rc -ne 0 ]; then grep -m3 "what=\|HARNESS\|EXPLORED" /tmp/refactor_$ID.log | cut -c1-300; cp /tmp/refactor_$ID.log /tmp/refactor_FAIL_$(basename $(dirname $(dirname $P)))_$ID.log; fi
done
git -C /repo checkout -- .
