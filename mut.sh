#!/bin/bash
# usage: mut.sh <ID> <file-relative-to-repo> <sed-expr> [tier]  -- apply a sed mutation to /repo, run the check, revert.
ID=$1; F=$2; E=$3; T=${4:-quick}
cd /repo && sed -i "$E" "$F" && git diff --stat | head -3
if git diff --quiet; then echo "MUTATION DID NOT APPLY"; exit 3; fi
cd /verif && VERIF_EVIDENCE_DIR=/tmp/verif-mutant-evidence VERIF_BUDGET_S=${BUDGET:-200} ./check $ID --tier $T 2>&1 | grep -v '^  ' | tail -${TAIL:-6}
cd /repo && git checkout -- . && git status --short
