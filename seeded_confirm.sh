#!/bin/bash
# usage: seeded_confirm.sh <agent-worktree> <seeded-name> <property-id>
# Confirms an externally produced seeded change in a fresh scratch worktree:
# demo passes unchanged / fails changed, tree builds, existing suite passes; then files it under /verif/seeded/<name>/.
export GOFLAGS=-mod=mod GOPROXY=off GOSUMDB=off GOTOOLCHAIN=local
SRC=$1; NAME=$2; PID=$3
WT=/tmp/conf-wt-$NAME
OUT=/verif/seeded/$NAME
rm -rf "$OUT"; mkdir -p "$OUT"
git -C /repo worktree remove --force $WT 2>/dev/null; rm -rf $WT
git -C /repo worktree add --detach -q $WT HEAD || exit 2
DEMO=$(git -C $SRC status --porcelain | grep '^??' | grep -v '_out/' | awk '{print $2}' | head -1)
CMD=$(python3 - "$SRC/_out/demo_cmd.txt" <<'PY'
import sys,re
for line in open(sys.argv[1]):
    t=line.strip()
    if t.startswith('#') or 'go test' not in t: continue
    c=t[t.index('go test'):]
    if "bash -c '" in t and c.endswith("'"): c=c[:-1]
    c=re.sub(r'\s*(2>&1|\|).*$','',c)
    print(c); break
PY
)
cp $SRC/_out/patch.diff $OUT/patch.diff
cp -r $SRC/$DEMO $OUT/$(basename $DEMO)
cp $SRC/_out/notes.md $OUT/agent_notes.md 2>/dev/null
mkdir -p $WT/$(dirname $DEMO); cp -r $SRC/$DEMO $WT/$(dirname $DEMO)/
cd $WT
echo "[$NAME] demo=$DEMO cmd=$CMD"
timeout 1200 unshare -n bash -c "ip link set lo up; $CMD" > $OUT/demo_unchanged.log 2>&1; U=$?
git apply $OUT/patch.diff || { echo "[$NAME] PATCH DOES NOT APPLY"; exit 3; }
go build ./... > $OUT/build.log 2>&1; B=$?
timeout 1200 unshare -n bash -c "ip link set lo up; $CMD" > $OUT/demo_changed.log 2>&1; C=$?
rm -rf /tmp/conf-demo-$NAME.go; mv $WT/$DEMO /tmp/conf-demo-$NAME.go
unshare -n bash -c "ip link set lo up; go test -vet=off -count=1 ./..." > $OUT/suite_changed.log 2>&1; S=$?
if grep -qa "address already in use\|^panic" $OUT/suite_changed.log; then BADPANIC="panic-in-suite "; else BADPANIC=""; fi
FAILS=$(grep -a '^--- FAIL' $OUT/suite_changed.log | awk '{print $3}' | sort -u | tr '\n' ' ')
BADFAILS=$BADPANIC$(for f in $FAILS; do case $f in TestInsertionHappyPath|TestInsertionWrongInput|TestWrongMethod) ;; *) echo -n "$f ";; esac; done)
rm -rf /tmp/conf-demo-$NAME.go
cd /; git -C /repo worktree remove --force $WT
OK=false; if [ $U -eq 0 ] && [ $B -eq 0 ] && [ $C -ne 0 ] && [ -z "$BADFAILS" ]; then OK=true; fi
cat > $OUT/confirm.json <<JSON
{"property": "$PID", "demo_file": "$(basename $DEMO)", "demo_cmd": "$(echo "$CMD" | sed 's/"/\\"/g')", "demo_unchanged_exit": $U, "build_exit": $B, "demo_changed_exit": $C, "suite_exit": $S, "suite_failures": "$FAILS", "suite_failures_not_known_flaky": "$BADFAILS", "confirmed": $OK}
JSON
tail -c 2000 $OUT/suite_changed.log > $OUT/suite_changed.tail.log; rm -f $OUT/suite_changed.log
for f in demo_unchanged demo_changed; do tail -c 3000 $OUT/$f.log > $OUT/$f.tail.log; rm -f $OUT/$f.log; done
echo "[$NAME] unchanged=$U build=$B changed=$C suite=$S fails='$FAILS' confirmed=$OK"
